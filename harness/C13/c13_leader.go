package reconciler

// C13 harness, feeding side: whatever asks for a reconciliation goes through the rate limiter.

import (
	"context"
	"time"

	"k8s.io/client-go/util/workqueue"

	"github.com/jcmoraisjr/haproxy-ingress/pkg/controller/config"
	nd "github.com/jcmoraisjr/haproxy-ingress/pkg/zzverifnd"
)

// zzFeedQueue records how items are handed to the controller's queue.
type zzFeedQueue struct {
	workqueue.TypedRateLimitingInterface[rparam]
	limited, direct, delayed []rparam
}

func (q *zzFeedQueue) AddRateLimited(item rparam) { q.limited = append(q.limited, item) }
func (q *zzFeedQueue) Add(item rparam)            { q.direct = append(q.direct, item) }
func (q *zzFeedQueue) AddAfter(item rparam, d time.Duration) {
	q.delayed = append(q.delayed, item)
}

// VerifC13_LeaderFeedsTheLimiter: becoming the leader asks for a full reconciliation - through
// AddRateLimited, so that the limiter (decided in VerifC13_Reconcile) spaces it from the previous
// run and coalesces it with a pending one; losing the lease, or acquiring it before the watchers
// run, enqueues nothing.
func VerifC13_LeaderFeedsTheLimiter() {
	w := createWatchers(context.Background(), &config.Config{}, nil)
	w.run = nd.Bool("watchers.running")
	q := &zzFeedQueue{}
	r := &IngressReconciler{Config: &config.Config{}, watchers: w, queue: q}
	isLeader := nd.Bool("leader")
	r.leaderChanged(context.Background(), isLeader)
	nd.Assert(len(q.direct) == 0 && len(q.delayed) == 0, "nothing-bypasses-the-rate-limiter")
	if isLeader && w.run {
		nd.Assert(len(q.limited) == 1 && q.limited[0].fullsync, "leader-acquired-asks-for-a-full-sync")
		nd.Reach("enqueued")
	} else {
		nd.Assert(len(q.limited) == 0, "no-reconciliation-without-reason")
	}
	nd.Reach("end")
}
