package workqueue

// C13 harness: rate limiters of pkg/utils/workqueue/ratelimiters.go driven by a symbolic
// arrival schedule, in front of the documented contract of client-go's rate-limiting queue.

import (
	"time"

	nd "github.com/jcmoraisjr/haproxy-ingress/pkg/zzverifnd"
)

// zzItemQ models one de-duplicated item inside client-go's delaying queue, idealised:
// AddRateLimited(x) = AddAfter(x, When(x)); a non-positive delay runs the item at once;
// a waiting item keeps its earliest deadline; it runs exactly at its deadline; processing
// takes no time.
type zzItemQ struct {
	pending  bool
	deadline int64
	nfires   int
	lastFire int64
	minGap   int64 // required spacing between consecutive runs
	id       string
}

func (q *zzItemQ) fire(at int64) {
	if q.nfires > 0 {
		gap := at - q.lastFire
		// a robust counterexample (half the interval) is preferred because the native
		// replay runs on the real clock
		nd.Assert(gap >= q.minGap/2, q.id+"-spacing-half")
		nd.Assert(gap >= q.minGap, q.id+"-spacing")
	}
	q.nfires++
	q.lastFire = at
}

// advance runs the item if its deadline has been reached.
func (q *zzItemQ) advance(now int64) {
	if q.pending && q.deadline <= now {
		q.pending = false
		q.fire(q.deadline)
	}
}

func (q *zzItemQ) addAfter(now int64, d time.Duration) {
	if d <= 0 {
		q.fire(now)
		return
	}
	dl := now + int64(d)
	if !q.pending || dl < q.deadline {
		q.pending = true
		q.deadline = dl
	}
}

var zzIntervals = []time.Duration{1, 30 * time.Millisecond, 400 * time.Millisecond, 5 * time.Second, time.Hour}

// zzGap lets an arbitrary time in [0, 4*unit] pass.
func zzGap(name string, unit time.Duration) {
	g := nd.Int(name, 0, 4*int(unit))
	nd.Sleep(time.Duration(g))
}

// VerifC13_Reload: reloads issued through the reload queue keep --reload-interval spacing,
// every notification is followed by a run no later than the remaining interval.
func VerifC13_Reload() {
	interval := zzIntervals[nd.Choice("interval", len(zzIntervals))]
	rl := ReloadHAProxyRateLimiter(interval)
	q := &zzItemQ{minGap: int64(interval), id: "reload"}
	k := nd.Param("K", 3)
	for i := 0; i < k; i++ {
		if i > 0 {
			zzGap("gap", interval)
		}
		now := nd.MonoNow()
		q.advance(now)
		d := rl.When(nil)
		nd.Assert(d <= interval, "reload-delay-bounded")
		q.addAfter(now, d)
		// none is dropped: the notification has just run or is waiting
		nd.Assert(q.pending || (q.nfires > 0 && q.lastFire == now), "reload-not-dropped")
		if q.pending {
			nd.Assert(q.deadline-now <= int64(interval), "reload-runs-within-interval")
		}
	}
	if q.pending {
		q.pending = false
		q.fire(q.deadline)
	}
	nd.Reach("end")
}

// --rate-limit-update values and the period 1/rate each one stands for (written down
// independently of the constructor under test; the documented range is 0.05..10, two values
// beyond it exercise very short periods)
var zzRates = []float64{1e9, 50, 2, 0.5, 0.4, 0.3, 10, 0.05}
var zzDeltas = []time.Duration{1, 20 * time.Millisecond, 500 * time.Millisecond, 2 * time.Second, 2500 * time.Millisecond, 3333333333, 100 * time.Millisecond, 20 * time.Second}
var zzWaits = []time.Duration{0, 10 * time.Millisecond, 200 * time.Millisecond, 5 * time.Second}

// VerifC13_Reconcile: two reconciliations of the same kind keep 1/rate spacing; the limiter is
// shared by the partial and the full item, as in the reconciler.
func VerifC13_Reconcile() {
	nrates := nd.Param("RATES", len(zzRates))
	ri := nd.Choice("delta", nrates)
	delta := zzDeltas[ri]
	wait := zzWaits[nd.Choice("wait", len(zzWaits))]
	rl := IngressReconcilerRateLimiter[bool](zzRates[ri], wait)
	qs := [2]*zzItemQ{{minGap: int64(delta), id: "partial"}, {minGap: int64(delta), id: "full"}}
	unit := delta
	if wait > unit {
		unit = wait
	}
	k := nd.Param("K", 3)
	for i := 0; i < k; i++ {
		if i > 0 {
			zzGap("gap", unit)
		}
		now := nd.MonoNow()
		qs[0].advance(now)
		qs[1].advance(now)
		kind := 0
		if nd.Bool("full") {
			kind = 1
		}
		q := qs[kind]
		d := rl.When(kind == 1)
		nd.Assert(d <= unit, "reconcile-delay-bounded")
		q.addAfter(now, d)
		nd.Assert(q.pending || (q.nfires > 0 && q.lastFire == now), "reconcile-not-dropped")
	}
	for _, q := range qs {
		if q.pending {
			q.pending = false
			q.fire(q.deadline)
		}
	}
	nd.Reach("end")
}
