package ingress

// C01 harness for TCP services declared by ingresses (tcp-service-port): several ingresses share
// one port (default host and SNI hosts); incremental batches must equal a full sync.

import (
	"sort"
	"strings"

	networking "k8s.io/api/networking/v1"

	convtypes "github.com/jcmoraisjr/haproxy-ingress/pkg/converters/types"
	"github.com/jcmoraisjr/haproxy-ingress/pkg/haproxy"
	nd "github.com/jcmoraisjr/haproxy-ingress/pkg/zzverifnd"
)

func zzTCPDigest(hc haproxy.Config) map[string]string {
	d := zzDigest(hc)
	for port, p := range hc.TCPServices().Items() {
		var hosts []string
		if dh := p.DefaultHost(); dh != nil {
			hosts = append(hosts, "<default>="+dh.Backend.String())
		}
		for name, h := range p.Hosts() {
			hosts = append(hosts, name+"="+h.Backend.String())
		}
		sort.Strings(hosts)
		d["tcp:"+string(rune('0'+port%10))] = strings.Join(hosts, ",")
	}
	return d
}

// zzTCPIngress: an ingress exposing a TCP port (7001 or 7002): without hostname it is the port's
// default host, with one it is an SNI host.
func zzTCPIngress(name string, created int64, prefix string) *networking.Ingress {
	ing := zzIngress(name, created, "none")
	port := []string{"7001", "7002"}[nd.Choice(prefix+".port", 2)]
	ing.Annotations = map[string]string{"ingress.kubernetes.io/tcp-service-port": port}
	host := []string{"", "h1.local", "h2.local"}[nd.Choice(prefix+".host", 3)]
	svc := zzSvcs[nd.Choice(prefix+".svc", len(zzSvcs))]
	ing.Spec.Rules = []networking.IngressRule{{Host: host}}
	ing.Spec.Rules[0].HTTP = &networking.HTTPIngressRuleValue{Paths: []networking.HTTPIngressPath{{
		Path: "/",
		Backend: networking.IngressBackend{Service: &networking.IngressServiceBackend{
			Name: svc, Port: networking.ServiceBackendPort{Number: zzSvcPort(svc)},
		}},
	}}}
	return ing
}

// VerifC01_TCPServices: i1 and optionally i2 and i3 expose TCP ports; full sync, commit, then one
// incremental batch (endpoints of s1 or s2 changed, i2 added / updated / deleted); the model -
// tcp ports with their default and SNI hosts included - equals a fresh full sync.
func VerifC01_TCPServices() {
	w := zzBaseWorld()
	w.ings = []*networking.Ingress{zzTCPIngress("i1", 1, "i1")}
	hasI2 := nd.Bool("i2.present")
	var i2 *networking.Ingress
	if hasI2 {
		i2 = zzTCPIngress("i2", 2, "i2")
		w.ings = append(w.ings, i2)
	}
	sys := zzNewSystem(w)
	c0 := sys.converter(&convtypes.ChangedObjects{GlobalConfigMapDataNew: map[string]string{}})
	c0.Sync(true)
	sys.hc.Commit()

	changed := &convtypes.ChangedObjects{GlobalConfigMapDataCur: map[string]string{}, Links: convtypes.TrackingLinks{}}
	link := func(res convtypes.ResourceType, name string) {
		changed.Links[res] = append(changed.Links[res], name)
	}
	switch nd.Choice("event", 5) {
	case 0:
		_, ep := zzSvc("s1", "10.0.0.9")
		w.eps["default/s1"] = ep
		link(convtypes.ResourceEndpoints, "default/s1")
	case 1:
		_, ep := zzSvc("s2", "10.0.0.9")
		w.eps["default/s2"] = ep
		link(convtypes.ResourceEndpoints, "default/s2")
	case 2:
		nd.Assume(!hasI2)
		i2 = zzTCPIngress("i2", 2, "i2new")
		w.ings = append(w.ings, i2)
		changed.IngressesAdd = []*networking.Ingress{i2}
		link(convtypes.ResourceIngress, "default/i2")
	case 3:
		nd.Assume(hasI2)
		i2 = zzTCPIngress("i2", 2, "i2new")
		w.ings[1] = i2
		changed.IngressesUpd = []*networking.Ingress{i2}
		link(convtypes.ResourceIngress, "default/i2")
	case 4:
		nd.Assume(hasI2)
		w.ings = w.ings[:1]
		changed.IngressesDel = []*networking.Ingress{i2}
		link(convtypes.ResourceIngress, "default/i2")
	}
	c1 := sys.converter(changed)
	if c1.NeedFullSync() {
		nd.Reach("fullsync-fallback")
		return
	}
	c1.Sync(false)
	incremental := zzTCPDigest(sys.hc)

	fresh := zzNewSystem(w)
	cf := fresh.converter(&convtypes.ChangedObjects{GlobalConfigMapDataNew: map[string]string{}})
	cf.Sync(true)
	full := zzTCPDigest(fresh.hc)
	for k, v := range full {
		nd.Record("full " + k + " = " + v)
	}
	for k, v := range incremental {
		nd.Record("incr " + k + " = " + v)
	}
	nd.Assert(zzSameDigest(incremental, full), "incremental-equals-full")
	nd.Reach("end")
}
