package ingress

import (
	"strings"

	api "k8s.io/api/core/v1"
	networking "k8s.io/api/networking/v1"

	convtypes "github.com/jcmoraisjr/haproxy-ingress/pkg/converters/types"
	nd "github.com/jcmoraisjr/haproxy-ingress/pkg/zzverifnd"
)

func zzBaseWorld() *zzWorld {
	w := &zzWorld{svcs: map[string]*api.Service{}, eps: map[string]*api.Endpoints{}, secrets: map[string]string{}}
	for i, n := range zzSvcs {
		svc, ep := zzSvc(n, []string{"10.0.0.1", "10.0.0.2"}[i])
		w.svcs["default/"+n], w.eps["default/"+n] = svc, ep
	}
	w.secrets["default/t1"] = "v1"
	w.secrets["default/t2"] = "v1"
	w.secrets["system/default"] = "v1"
	return w
}

// VerifC01_PartialEqualsFull: full sync of a cluster with one or two ingresses, commit, then one
// batch (ingress added / updated / deleted, endpoints changed, secret or default certificate content changed) applied
// through the incremental path. The resulting model must equal a fresh full sync of the final
// cluster, and every host/backend/acme storage the incremental path did not flag as changed must
// be exactly as it was committed (an in-place change of a clean object never reaches disk).
func VerifC01_PartialEqualsFull() {
	w := zzBaseWorld()
	i1 := zzIngress("i1", 1, "i1")
	w.ings = []*networking.Ingress{i1}
	hasI2 := nd.Bool("i2.present")
	var i2 *networking.Ingress
	if hasI2 {
		i2 = zzIngress("i2", 2, "i2")
		w.ings = append(w.ings, i2)
	}
	sys := zzNewSystem(w)
	c0 := sys.converter(&convtypes.ChangedObjects{GlobalConfigMapDataNew: map[string]string{}})
	c0.Sync(true)
	sys.hc.Commit()
	committed := zzDigest(sys.hc)

	// one batch
	changed := &convtypes.ChangedObjects{GlobalConfigMapDataCur: map[string]string{}, Links: convtypes.TrackingLinks{}}
	link := func(res convtypes.ResourceType, name string) {
		changed.Links[res] = append(changed.Links[res], name)
	}
	nevents := nd.Param("EVENTS", 6)
	ev := nd.Choice("event", nevents)
	if nd.Param("SECRETEVENTS", 0) == 1 {
		// only the Secret content events (used by the C15 check)
		ev = 4 + nd.Choice("secretevent", 2)
	}
	switch ev {
	case 0: // add i2
		nd.Assume(!hasI2)
		i2 = zzIngress("i2", 2, "i2new")
		w.ings = append(w.ings, i2)
		changed.IngressesAdd = []*networking.Ingress{i2}
		link(convtypes.ResourceIngress, "default/i2")
	case 1: // delete i2
		nd.Assume(hasI2)
		w.ings = w.ings[:1]
		changed.IngressesDel = []*networking.Ingress{i2}
		link(convtypes.ResourceIngress, "default/i2")
	case 2: // update i2
		nd.Assume(hasI2)
		i2 = zzIngress("i2", 2, "i2new")
		w.ings[1] = i2
		changed.IngressesUpd = []*networking.Ingress{i2}
		link(convtypes.ResourceIngress, "default/i2")
	case 3: // endpoints of s1 change
		_, ep := zzSvc("s1", "10.0.0.9")
		w.eps["default/s1"] = ep
		link(convtypes.ResourceEndpoints, "default/s1")
	case 4: // secret t1 gets new content
		w.secrets["default/t1"] = "v2"
		link(convtypes.ResourceSecret, "default/t1")
	case 5: // the default certificate gets new content (same Secret, same file name)
		w.secrets["system/default"] = "v2"
		link(convtypes.ResourceSecret, "system/default")
	case 6: // create + delete of i2 inside one batch
		nd.Assume(!hasI2)
		i2 = zzIngress("i2", 2, "i2new")
		changed.IngressesAdd = []*networking.Ingress{i2}
		changed.IngressesDel = []*networking.Ingress{i2}
		link(convtypes.ResourceIngress, "default/i2")
	case 7: // delete + create of i2 inside one batch
		nd.Assume(hasI2)
		old := i2
		i2 = zzIngress("i2", 3, "i2new")
		w.ings[1] = i2
		changed.IngressesDel = []*networking.Ingress{old}
		changed.IngressesAdd = []*networking.Ingress{i2}
		link(convtypes.ResourceIngress, "default/i2")
	case 8: // create + update of i2 inside one batch
		nd.Assume(!hasI2)
		// the version seen by the create event: a plain rule; the update replaces it
		first := zzIngress("i2", 2, "none")
		first.Spec.Rules = []networking.IngressRule{{Host: zzHosts[0]}}
		i2 = zzIngress("i2", 2, "i2new")
		w.ings = append(w.ings, i2)
		changed.IngressesAdd = []*networking.Ingress{first}
		changed.IngressesUpd = []*networking.Ingress{i2}
		link(convtypes.ResourceIngress, "default/i2")
	case 9: // i1 deleted: whatever i2 declared in duplicate changes owner
		w.ings = w.ings[1:]
		changed.IngressesDel = []*networking.Ingress{i1}
		link(convtypes.ResourceIngress, "default/i1")
	case 10: // i1 updated
		i1 = zzIngress("i1", 1, "i1new")
		w.ings[0] = i1
		changed.IngressesUpd = []*networking.Ingress{i1}
		link(convtypes.ResourceIngress, "default/i1")
	}
	c1 := sys.converter(changed)
	if c1.NeedFullSync() {
		nd.Reach("fullsync-fallback")
		return
	}
	c1.Sync(false)
	incremental := zzDigest(sys.hc)

	fresh := zzNewSystem(w)
	cf := fresh.converter(&convtypes.ChangedObjects{GlobalConfigMapDataNew: map[string]string{}})
	cf.Sync(true)
	full := zzDigest(fresh.hc)

	for k, v := range full {
		nd.Record("full " + k + " = " + v)
	}
	for k, v := range incremental {
		nd.Record("incr " + k + " = " + v)
	}
	nd.Assert(zzSameDigest(incremental, full), "incremental-equals-full")

	// clean objects are immutable
	addedHosts := sys.hc.Hosts().ItemsAdd()
	addedBacks := sys.hc.Backends().ItemsAdd()
	acmeAdd := map[string]bool{}
	for _, st := range sys.hc.AcmeData().Storages().BuildAcmeStoragesAdd() {
		acmeAdd[st[:strings.Index(st, ",")]] = true
	}
	for k, v := range incremental {
		old, existed := committed[k]
		if !existed {
			continue
		}
		flagged := false
		switch {
		case strings.HasPrefix(k, "host:"):
			_, flagged = addedHosts[k[5:]]
		case strings.HasPrefix(k, "backend:"):
			_, flagged = addedBacks[k[8:]]
		case strings.HasPrefix(k, "acme:"):
			flagged = acmeAdd[k[5:]]
		}
		if !flagged {
			nd.Record("clean " + k + ": committed=" + old + " now=" + v)
			nd.Assert(old == v, "clean-object-not-mutated")
		}
	}
	nd.Reach("end")
}
