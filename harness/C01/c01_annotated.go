package ingress

// C01 harness with the real annotation updater for hosts and backends: resources shared between
// backends through annotations (basic-auth userlists built from one Secret) across two batches.

import (
	"errors"
	"sort"
	"strings"

	networking "k8s.io/api/networking/v1"

	"github.com/jcmoraisjr/haproxy-ingress/pkg/converters/ingress/annotations"
	convtypes "github.com/jcmoraisjr/haproxy-ingress/pkg/converters/types"
	"github.com/jcmoraisjr/haproxy-ingress/pkg/haproxy"
	hatypes "github.com/jcmoraisjr/haproxy-ingress/pkg/haproxy/types"
	nd "github.com/jcmoraisjr/haproxy-ingress/pkg/zzverifnd"
)

// zzHalfRealUpdater: hosts and backends go through the real updater; the global configuration
// (whose changes always fall back to a full sync) stays neutral.
type zzHalfRealUpdater struct {
	zzUpdater
	real annotations.Updater
}

func (u zzHalfRealUpdater) UpdateHostConfig(host *hatypes.Host, mapper *annotations.Mapper) {
	u.real.UpdateHostConfig(host, mapper)
}
func (u zzHalfRealUpdater) UpdateBackendConfig(backend *hatypes.Backend, mapper *annotations.Mapper) {
	u.real.UpdateBackendConfig(backend, mapper)
}

// GetPasswdSecretContent records the tracking link the way services.(*c).GetPasswdSecretContent
// does (before reading), then serves the secret from the world.
func (c *zzCache) GetPasswdSecretContent(defaultNamespace, secretName string, track []convtypes.TrackingRef) ([]byte, error) {
	fullname := secretName
	if !strings.Contains(fullname, "/") && defaultNamespace != "" {
		fullname = defaultNamespace + "/" + fullname
	}
	c.tracker.TrackRefName(track, convtypes.ResourceSecret, fullname)
	if v, ok := c.w.secrets[fullname]; ok {
		return []byte("usr:" + v), nil
	}
	return nil, errors.New("secret not found")
}

func (s *zzSystem) annotatedConverter(changed *convtypes.ChangedObjects) *converter {
	c := s.converter(changed)
	opts := *c.options
	c.updater = zzHalfRealUpdater{real: annotations.NewUpdater(s.hc, &opts)}
	return c
}

// zzAnnDigest adds what the annotations under test produce: userlists and the per-path basic
// authentication of every backend.
func zzAnnDigest(hc haproxy.Config) map[string]string {
	d := zzDigest(hc)
	for _, ul := range hc.Userlists().BuildSortedItems() {
		var users []string
		for _, u := range ul.Users {
			users = append(users, u.Name+":"+u.Passwd)
		}
		d["userlist:"+ul.Name] = strings.Join(users, ",")
	}
	for id, b := range hc.Backends().Items() {
		var auth []string
		for _, p := range b.Paths {
			auth = append(auth, p.Link.Hostname()+p.Path()+"="+p.AuthHTTP.UserlistName+"/"+p.AuthHTTP.Realm)
		}
		sort.Strings(auth)
		d["backend:"+id] += " auth=" + strings.Join(auth, ",")
	}
	return d
}

// zzAnnIngress: ingress k lives on its own host and service unless the solver makes it share.
func zzAnnIngress(name string, created int64, prefix string) *networking.Ingress {
	ing := zzIngress(name, created, "none")
	host := zzHosts[nd.Choice(prefix+".host", len(zzHosts))]
	svc := zzSvcs[nd.Choice(prefix+".svc", len(zzSvcs))]
	ing.Spec.Rules = []networking.IngressRule{{Host: host}}
	ing.Spec.Rules[0].HTTP = &networking.HTTPIngressRuleValue{Paths: []networking.HTTPIngressPath{{
		Path: "/" + name,
		Backend: networking.IngressBackend{Service: &networking.IngressServiceBackend{
			Name: svc, Port: networking.ServiceBackendPort{Number: zzSvcPort(svc)},
		}},
	}}}
	switch nd.Choice(prefix+".auth", 3) {
	case 1:
		ing.Annotations = map[string]string{"ingress.kubernetes.io/auth-secret": "p1"}
	case 2:
		ing.Annotations = map[string]string{"ingress.kubernetes.io/auth-secret": "p2"}
	}
	return ing
}

// VerifC01_Annotated: i1 and optionally i2 are synced in full and committed; then BATCHES batches
// of one event each (i2 added / updated / deleted, i1 deleted or updated, password Secret content
// changed) go through the incremental path, each followed by a commit. After every batch the model
// equals a fresh full sync of the cluster as it then is.
func VerifC01_Annotated() {
	w := zzBaseWorld()
	w.secrets["default/p1"] = "v1"
	w.secrets["default/p2"] = "v1"
	i1 := zzAnnIngress("i1", 1, "i1")
	w.ings = []*networking.Ingress{i1}
	var i2 *networking.Ingress
	if nd.Bool("i2.present") {
		i2 = zzAnnIngress("i2", 2, "i2")
		w.ings = append(w.ings, i2)
	}
	sys := zzNewSystem(w)
	c0 := sys.annotatedConverter(&convtypes.ChangedObjects{GlobalConfigMapDataNew: map[string]string{}})
	c0.Sync(true)
	sys.hc.Commit()

	find := func(name string) int {
		for k, ing := range w.ings {
			if ing.Name == name {
				return k
			}
		}
		return -1
	}
	batches := nd.Param("BATCHES", 2)
	for b := 0; b < batches; b++ {
		changed := &convtypes.ChangedObjects{GlobalConfigMapDataCur: map[string]string{}, Links: convtypes.TrackingLinks{}}
		link := func(res convtypes.ResourceType, name string) {
			changed.Links[res] = append(changed.Links[res], name)
		}
		switch nd.Choice("event", 5) {
		case 0: // i2 added or updated
			n := zzAnnIngress("i2", 2, "i2new")
			if k := find("i2"); k >= 0 {
				w.ings[k] = n
				changed.IngressesUpd = []*networking.Ingress{n}
			} else {
				w.ings = append(w.ings, n)
				changed.IngressesAdd = []*networking.Ingress{n}
			}
			link(convtypes.ResourceIngress, "default/i2")
		case 1: // i2 deleted
			k := find("i2")
			nd.Assume(k >= 0)
			changed.IngressesDel = []*networking.Ingress{w.ings[k]}
			w.ings = append(append([]*networking.Ingress{}, w.ings[:k]...), w.ings[k+1:]...)
			link(convtypes.ResourceIngress, "default/i2")
		case 2: // i1 deleted
			k := find("i1")
			nd.Assume(k >= 0)
			changed.IngressesDel = []*networking.Ingress{w.ings[k]}
			w.ings = append(append([]*networking.Ingress{}, w.ings[:k]...), w.ings[k+1:]...)
			link(convtypes.ResourceIngress, "default/i1")
		case 3: // i1 updated
			k := find("i1")
			nd.Assume(k >= 0)
			n := zzAnnIngress("i1", 1, "i1new")
			w.ings[k] = n
			changed.IngressesUpd = []*networking.Ingress{n}
			link(convtypes.ResourceIngress, "default/i1")
		case 4: // the password Secret p1 gets new content
			w.secrets["default/p1"] = "v" + string(rune('2'+b))
			link(convtypes.ResourceSecret, "default/p1")
		}
		c1 := sys.annotatedConverter(changed)
		if c1.NeedFullSync() {
			nd.Reach("fullsync-fallback")
			return
		}
		c1.Sync(false)
		incremental := zzAnnDigest(sys.hc)
		sys.hc.Commit()

		fresh := zzNewSystem(w)
		cf := fresh.annotatedConverter(&convtypes.ChangedObjects{GlobalConfigMapDataNew: map[string]string{}})
		cf.Sync(true)
		full := zzAnnDigest(fresh.hc)
		for k, v := range full {
			nd.Record("full " + k + " = " + v)
		}
		for k, v := range incremental {
			nd.Record("incr " + k + " = " + v)
		}
		nd.Assert(zzSameDigest(incremental, full), "incremental-equals-full")
		// every userlist a path names exists
		for _, bk := range sys.hc.Backends().Items() {
			for _, p := range bk.Paths {
				if p.AuthHTTP.UserlistName != "" {
					nd.Assert(sys.hc.Userlists().Find(p.AuthHTTP.UserlistName) != nil, "named-userlist-exists")
				}
			}
		}
	}
	nd.Reach("end")
}
