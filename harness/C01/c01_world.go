package ingress

// Converter-level harness ("tier B"): a small symbolic cluster, the real ingress converter,
// tracker and haproxy model; a mock cache and a neutral annotation updater.

import (
	"crypto/x509"
	"errors"
	"net"
	"sort"
	"strconv"
	"strings"
	"time"

	api "k8s.io/api/core/v1"
	discoveryv1 "k8s.io/api/discovery/v1"
	networking "k8s.io/api/networking/v1"
	metav1 "k8s.io/apimachinery/pkg/apis/meta/v1"
	"k8s.io/apimachinery/pkg/util/intstr"

	"github.com/jcmoraisjr/haproxy-ingress/pkg/converters/ingress/annotations"
	"github.com/jcmoraisjr/haproxy-ingress/pkg/converters/tracker"
	convtypes "github.com/jcmoraisjr/haproxy-ingress/pkg/converters/types"
	"github.com/jcmoraisjr/haproxy-ingress/pkg/haproxy"
	hatypes "github.com/jcmoraisjr/haproxy-ingress/pkg/haproxy/types"
	nd "github.com/jcmoraisjr/haproxy-ingress/pkg/zzverifnd"
)

type zzLogger struct{}

func (zzLogger) InfoV(v int, msg string, args ...interface{}) {}
func (zzLogger) Info(msg string, args ...interface{})         {}
func (zzLogger) Warn(msg string, args ...interface{})         {}
func (zzLogger) Error(msg string, args ...interface{})        {}
func (zzLogger) Fatal(msg string, args ...interface{})        {}

// zzUpdater: the annotation updater is outside this harness; nothing it would set is compared.
type zzUpdater struct{}

func (zzUpdater) UpdateGlobalConfig(haproxyConfig haproxy.Config, config *annotations.Mapper)   {}
func (zzUpdater) UpdateTCPPortConfig(tcp *hatypes.TCPServicePort, mapper *annotations.Mapper)  {}
func (zzUpdater) UpdateTCPHostConfig(p *hatypes.TCPServicePort, h *hatypes.TCPServiceHost, m *annotations.Mapper) {
}
func (zzUpdater) UpdateHostConfig(host *hatypes.Host, mapper *annotations.Mapper)          {}
func (zzUpdater) UpdateBackendConfig(backend *hatypes.Backend, mapper *annotations.Mapper) {}

// zzWorld is the cluster state the cache serves.
type zzWorld struct {
	ings    []*networking.Ingress
	svcs    map[string]*api.Service
	eps     map[string]*api.Endpoints
	secrets map[string]string // "ns/name" -> content version
}

type zzCache struct {
	convtypes.Cache
	w       *zzWorld
	tracker convtypes.Tracker
}

func (c *zzCache) GetIngress(name string) (*networking.Ingress, error) {
	for _, ing := range c.w.ings {
		if ing.Namespace+"/"+ing.Name == name {
			return ing, nil
		}
	}
	return nil, errors.New("ingress not found")
}
func (c *zzCache) GetIngressList() ([]*networking.Ingress, error) {
	return append([]*networking.Ingress(nil), c.w.ings...), nil
}
func (c *zzCache) GetIngressClass(className string) (*networking.IngressClass, error) {
	return nil, errors.New("IngressClass not found")
}
func (c *zzCache) GetService(defaultNamespace, serviceName string) (*api.Service, error) {
	name := serviceName
	if !strings.Contains(name, "/") && defaultNamespace != "" {
		name = defaultNamespace + "/" + name
	}
	if s, ok := c.w.svcs[name]; ok {
		return s, nil
	}
	return nil, errors.New("service not found")
}
func (c *zzCache) GetEndpoints(service *api.Service) (*api.Endpoints, error) {
	if ep, ok := c.w.eps[service.Namespace+"/"+service.Name]; ok {
		return ep, nil
	}
	return nil, errors.New("endpoints not found")
}
func (c *zzCache) GetEndpointSlices(service *api.Service) ([]*discoveryv1.EndpointSlice, error) {
	return nil, nil
}
func (c *zzCache) GetTerminatingPods(service *api.Service, track []convtypes.TrackingRef) ([]*api.Pod, error) {
	return nil, nil
}
func (c *zzCache) GetPod(podName string) (*api.Pod, error) { return nil, errors.New("pod not found") }
func (c *zzCache) GetPodNamespace() string               { return "ingress-controller" }
func (c *zzCache) GetConfigMap(name string) (*api.ConfigMap, error) {
	return nil, errors.New("configmap not found")
}
func (c *zzCache) ExternalNameLookup(externalName string) ([]net.IP, error) {
	return nil, errors.New("not found")
}

// GetTLSSecretPath records the tracking link the way services.(*c).GetTLSSecretPath does, then
// serves the secret from the world.
func (c *zzCache) GetTLSSecretPath(defaultNamespace, secretName string, track []convtypes.TrackingRef) (convtypes.CrtFile, error) {
	fullname := secretName
	if !strings.Contains(fullname, "/") && defaultNamespace != "" {
		fullname = defaultNamespace + "/" + fullname
	}
	c.tracker.TrackRefName(track, convtypes.ResourceSecret, fullname)
	if v, ok := c.w.secrets[fullname]; ok {
		return convtypes.CrtFile{Filename: "/tls/" + fullname + ".pem", SHA1Hash: fullname + "@" + v, Certificate: &x509.Certificate{}}, nil
	}
	return convtypes.CrtFile{}, errors.New("secret not found")
}

// zzSvcPort: the service port an Ingress references; s1 maps port 80 to targetPort 8080 so that
// the port written in the Ingress and the backend's port differ, s2 uses 8080 for both.
func zzSvcPort(name string) int32 {
	if name == "s1" {
		return 80
	}
	return 8080
}

func zzSvc(name, ip string) (*api.Service, *api.Endpoints) {
	svc := &api.Service{ObjectMeta: metav1.ObjectMeta{Namespace: "default", Name: name}}
	svc.Spec.Ports = []api.ServicePort{{Name: "http", Port: zzSvcPort(name), TargetPort: intstr.FromInt(8080)}}
	ep := &api.Endpoints{ObjectMeta: metav1.ObjectMeta{Namespace: "default", Name: name}}
	ep.Subsets = []api.EndpointSubset{{
		Addresses: []api.EndpointAddress{{IP: ip}},
		Ports:     []api.EndpointPort{{Name: "http", Port: 8080, Protocol: api.ProtocolTCP}},
	}}
	return svc, ep
}

var zzHosts = []string{"h1.local", "h2.local"}
var zzSvcs = []string{"s1", "s2"}

// hosts of a tls entry: one host, or (TLSHOSTS=4) both hosts in either order
var zzTLSHosts = [][]string{{"h1.local"}, {"h2.local"}, {"h1.local", "h2.local"}, {"h2.local", "h1.local"}}
var zzSecrets = []string{"t1", "missing", "t2"}

// zzIngress builds an Ingress from solver-chosen parts: 0..1 rule (host, service) and 0..1 tls
// block (host, secret).
func zzIngress(name string, created int64, prefix string) *networking.Ingress {
	ing := &networking.Ingress{ObjectMeta: metav1.ObjectMeta{
		Namespace: "default", Name: name, CreationTimestamp: metav1.Time{Time: time.Unix(1600000000+created, 0)},
	}}
	if prefix == "none" {
		return ing
	}
	if nd.Param("ACME", 1) == 1 && nd.Bool(prefix+".acme") {
		ing.Annotations = map[string]string{"ingress.kubernetes.io/cert-signer": "acme"}
	}
	if nd.Param("WEIGHTANN", 0) == 1 && nd.Bool(prefix+".weight") {
		// one of the settings a backend takes from whoever creates it first
		if ing.Annotations == nil {
			ing.Annotations = map[string]string{}
		}
		ing.Annotations["ingress.kubernetes.io/initial-weight"] = "50"
	}
	if nd.Bool(prefix + ".rule") {
		host := zzHosts[nd.Choice(prefix+".host", len(zzHosts))]
		svc := zzSvcs[nd.Choice(prefix+".svc", len(zzSvcs))]
		ing.Spec.Rules = []networking.IngressRule{{Host: host}}
		ing.Spec.Rules[0].HTTP = &networking.HTTPIngressRuleValue{Paths: []networking.HTTPIngressPath{{
			Path: "/",
			Backend: networking.IngressBackend{Service: &networking.IngressServiceBackend{
				Name: svc, Port: networking.ServiceBackendPort{Number: zzSvcPort(svc)},
			}},
		}}}
	}
	if nd.Param("TLS", 1) == 1 && nd.Bool(prefix+".tls") {
		ing.Spec.TLS = []networking.IngressTLS{{
			Hosts:      zzTLSHosts[nd.Choice(prefix+".tlshost", nd.Param("TLSHOSTS", 2))],
			SecretName: zzSecrets[nd.Choice(prefix+".secret", nd.Param("SECRETS", len(zzSecrets)))],
		}}
	}
	return ing
}

type zzSystem struct {
	world   *zzWorld
	tracker convtypes.Tracker
	hc      haproxy.Config
	cache   *zzCache
	drain   bool
}

func zzNewSystem(w *zzWorld) *zzSystem {
	tr := tracker.NewTracker()
	s := &zzSystem{world: w, tracker: tr, hc: haproxy.CreateInstance(zzLogger{}, haproxy.InstanceOptions{}).Config()}
	s.cache = &zzCache{w: w, tracker: tr}
	return s
}

func (s *zzSystem) converter(changed *convtypes.ChangedObjects) *converter {
	c := NewIngressConverter(&convtypes.ConverterOptions{
		Cache:            s.cache,
		Logger:           zzLogger{},
		Tracker:          s.tracker,
		DynamicConfig:    &convtypes.DynamicConfig{},
		DefaultConfig: func() map[string]string {
			d := map[string]string{"initial-weight": "100"}
			if s.drain {
				d["drain-support"] = "true"
			}
			return d
		},
		DefaultCrtSecret: "system/default",
		AnnotationPrefix: []string{"ingress.kubernetes.io"},
		DefaultBackend:   []string{"", "default/s1"}[nd.Param("DEFBACK", 0)],
	}, s.hc, changed).(*converter)
	c.updater = zzUpdater{}
	return c
}

// zzDigest renders what HAProxy's behaviour depends on, per host, backend and acme storage.
func zzDigest(hc haproxy.Config) map[string]string {
	d := map[string]string{}
	for name, h := range hc.Hosts().Items() {
		var paths []string
		for _, p := range h.Paths {
			paths = append(paths, p.Path()+"|"+string(p.Match())+"|"+p.Backend.ID)
		}
		sort.Strings(paths)
		d["host:"+name] = strings.Join(paths, ",") + " tls=" + h.TLS.TLSFilename + "#" + h.TLS.TLSHash
	}
	for id, b := range hc.Backends().Items() {
		var eps []string
		for _, ep := range b.Endpoints {
			if !ep.IsEmpty() {
				eps = append(eps, ep.Target+"/"+strconv.Itoa(ep.Weight)+"/"+strconv.FormatBool(ep.Enabled))
			}
		}
		sort.Strings(eps)
		var links []string
		for _, p := range b.Paths {
			links = append(links, p.Link.Hostname()+p.Path())
		}
		sort.Strings(links)
		d["backend:"+id] = strings.Join(eps, ",") + " paths=" + strings.Join(links, ",")
	}
	for _, st := range hc.AcmeData().Storages().BuildAcmeStorages() {
		d["acme:"+st[:strings.Index(st, ",")]] = st
	}
	return d
}

func zzSameDigest(a, b map[string]string) bool {
	if len(a) != len(b) {
		return false
	}
	for k, v := range a {
		if w, ok := b[k]; !ok || w != v {
			return false
		}
	}
	return true
}

func zzBaseServices() (map[string]*api.Service, map[string]*api.Endpoints) {
	svcs, eps := map[string]*api.Service{}, map[string]*api.Endpoints{}
	for i, n := range zzSvcs {
		svc, ep := zzSvc(n, []string{"10.0.0.1", "10.0.0.2"}[i])
		svcs["default/"+n], eps["default/"+n] = svc, ep
	}
	return svcs, eps
}
