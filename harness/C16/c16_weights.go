package utils

// C16 harness: RebalanceWeight / gcd / lcm on symbolic group weights.

import (
	nd "github.com/jcmoraisjr/haproxy-ingress/pkg/zzverifnd"
)

var zzInitialWeights = []int{1, 128, 100, 256}

// VerifC16_Rebalance checks, for every weight vector in 0..MAXW and every replica count in 0..MAXL:
// each written weight is in 0..256, is zero exactly when the configured weight is zero, and the
// per-group traffic (weight x replicas) keeps the configured order and proportions up to rounding.
func VerifC16_Rebalance() {
	n := nd.Param("GROUPS", 2)
	maxL := nd.Param("MAXL", 3)
	maxW := nd.Param("MAXW", 256)
	niw := nd.Param("NIW", 2)
	iw := zzInitialWeights[nd.Param("IWBASE", 0)+nd.Choice("iw", niw)]
	cl := make([]*WeightCluster, n)
	W := make([]int, n)
	L := make([]int, n)
	for i := 0; i < n; i++ {
		L[i] = nd.Param("MINL", 0) + nd.Choice("len", maxL+1-nd.Param("MINL", 0))
		W[i] = nd.Int("w", 0, maxW)
		cl[i] = &WeightCluster{Weight: W[i], Length: L[i]}
	}
	RebalanceWeight(cl, iw)
	live := 0
	for i := 0; i < n; i++ {
		if L[i] == 0 {
			continue
		}
		live++
		r := cl[i].Weight
		nd.Assert(r >= 0, "weight-nonnegative")
		nd.Assert(r <= 256, "weight-max-256")
		nd.Assert((r == 0) == (W[i] == 0), "zero-iff-zero")
	}
	// order and proportion of the traffic share r*L between two live groups
	for i := 0; i < n; i++ {
		for j := 0; j < n; j++ {
			if i == j || L[i] == 0 || L[j] == 0 {
				continue
			}
			ri, rj := cl[i].Weight, cl[j].Weight
			if W[i] <= W[j] {
				// a group configured with no more weight gets no more traffic, up to one
				// rounding step of one server of each group
				nd.Assert(ri*L[i] <= rj*L[j]+L[j]+L[i], "order-preserved")
			}
			if ri > 1 && rj > 1 {
				// shares follow the configured proportion: r_i*L_i : r_j*L_j ~ W_i : W_j, with one
				// unit of integer truncation on each server weight (cross-multiplied, no division)
				nd.Assert((ri-1)*L[i]*W[j] < (rj+2)*L[j]*W[i], "proportional")
			}
		}
	}
	if live > 0 {
		nd.Reach("live")
	}
	nd.Reach("end")
}
