package annotations

// C16 harness, blue/green caller: buildBackendBlueGreenBalance parses the annotation, clamps the
// weights, groups the endpoints by pod label and writes the server weights.

import (
	"errors"
	"strconv"

	api "k8s.io/api/core/v1"
	metav1 "k8s.io/apimachinery/pkg/apis/meta/v1"

	ingtypes "github.com/jcmoraisjr/haproxy-ingress/pkg/converters/ingress/types"
	convtypes "github.com/jcmoraisjr/haproxy-ingress/pkg/converters/types"
	"github.com/jcmoraisjr/haproxy-ingress/pkg/haproxy"
	hatypes "github.com/jcmoraisjr/haproxy-ingress/pkg/haproxy/types"
	nd "github.com/jcmoraisjr/haproxy-ingress/pkg/zzverifnd"
)

type zzC16Logger struct{}

func (zzC16Logger) InfoV(v int, msg string, args ...interface{}) {}
func (zzC16Logger) Info(msg string, args ...interface{})         {}
func (zzC16Logger) Warn(msg string, args ...interface{})         {}
func (zzC16Logger) Error(msg string, args ...interface{})        {}
func (zzC16Logger) Fatal(msg string, args ...interface{})        {}

type zzC16PodCache struct {
	convtypes.Cache
	pods map[string]*api.Pod
}

func (c *zzC16PodCache) GetPod(name string) (*api.Pod, error) {
	if p, ok := c.pods[name]; ok {
		return p, nil
	}
	return nil, errors.New("pod not found")
}

// VerifC16_BlueGreen: annotation `blue-green-balance: g=v1=<W1>,g=v2=<W2>` with each weight a
// symbolic decimal string of 3 digits, leading zeros allowed (0..999, clamped to 256 by the code), ENDPOINTS servers
// each belonging to group v1, v2, an unlisted label, no pod at all, or draining (weight 0), mode
// deploy or pod, initial weight 1 or 100.
func VerifC16_BlueGreen() {
	logger := zzC16Logger{}
	cache := &zzC16PodCache{pods: map[string]*api.Pod{}}
	hc := haproxy.CreateInstance(logger, haproxy.InstanceOptions{}).Config()
	c := NewUpdater(hc, &convtypes.ConverterOptions{Logger: logger, Cache: cache}).(*updater)
	iw := []int{1, 100}[nd.Choice("iw", 2)]
	mode := []string{"deploy", "pod", "other"}[nd.Choice("mode", nd.Param("MODES", 3))]

	var W [2]int   // configured weights as a reader of the documentation understands them
	var txt [2]string
	for g := 0; g < 2; g++ {
		// exactly DIGITS digits, leading zeros allowed (ParseInt accepts them): 0..999
		txt[g] = nd.String("w", nd.Param("DIGITS", 3), "0123456789")
		v := 0
		for k := 0; k < len(txt[g]); k++ {
			v = v*10 + int(txt[g][k]-'0')
		}
		if v > 256 {
			v = 256
		}
		W[g] = v
	}
	backend := hc.Backends().AcquireBackend("default", "app", "8080")
	backend.Server.InitialWeight = iw
	n := nd.Param("ENDPOINTS", 3)
	kind := make([]int, n) // 0 group v1, 1 group v2, 2 other label, 3 no pod, 4 draining member of v1
	var L [2]int
	for k := 0; k < n; k++ {
		kind[k] = nd.Choice("endpoint", 5)
		ref := "default/pod" + strconv.Itoa(k)
		label := []string{"v1", "v2", "v9", "", "v1"}[kind[k]]
		if kind[k] != 3 {
			cache.pods[ref] = &api.Pod{ObjectMeta: metav1.ObjectMeta{Namespace: "default", Name: "pod" + strconv.Itoa(k), Labels: map[string]string{"g": label}}}
		}
		ep := backend.AddEndpoint("10.0.0."+strconv.Itoa(k+1), 8080, ref)
		if kind[k] == 4 {
			ep.Weight = 0
		}
		if kind[k] < 2 {
			L[kind[k]]++
		}
	}
	src := &Source{Namespace: "default", Name: "ing1", Type: convtypes.ResourceIngress}
	link := hatypes.CreateHostPathLink("d.local", "/", hatypes.MatchBegin)
	mapper := NewMapBuilder(logger, map[string]string{ingtypes.BackInitialWeight: strconv.Itoa(iw)}).NewMapper()
	mapper.AddAnnotations(src, link, map[string]string{
		ingtypes.BackBlueGreenBalance: "g=v1=" + txt[0] + ",g=v2=" + txt[1],
		ingtypes.BackBlueGreenMode:    mode,
	})
	c.buildBackendBlueGreenBalance(&backData{backend: backend, mapper: mapper})

	var R [2]int
	R[0], R[1] = -1, -1
	for k, ep := range backend.Endpoints {
		nd.Assert(ep.Weight >= 0 && ep.Weight <= 256, "weight-in-0-256")
		switch kind[k] {
		case 0, 1:
			g := kind[k]
			nd.Assert((ep.Weight == 0) == (W[g] == 0), "zero-iff-zero")
			if R[g] >= 0 {
				nd.Assert(ep.Weight == R[g], "same-weight-inside-a-group")
			}
			R[g] = ep.Weight
			if mode == "pod" {
				nd.Assert(ep.Weight == W[g], "pod-mode-keeps-configured-weight")
			}
		default:
			nd.Assert(ep.Weight == 0, "unmatched-or-draining-server-gets-no-traffic")
		}
	}
	if mode != "pod" && L[0] > 0 && L[1] > 0 {
		for i := 0; i < 2; i++ {
			j := 1 - i
			if W[i] <= W[j] {
				nd.Assert(R[i]*L[i] <= R[j]*L[j]+L[j]+L[i], "order-preserved")
			}
			if R[i] > 1 && R[j] > 1 {
				nd.Assert((R[i]-1)*L[i]*W[j] < (R[j]+2)*L[j]*W[i], "proportional")
			}
		}
		nd.Reach("rebalanced")
	}
	nd.Reach("end")
}
