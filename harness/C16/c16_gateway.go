package gateway

// C16 harness, Gateway API caller: createBackend turns backendRefs (weight nil = 1, or explicit)
// and their ready endpoints into server weights.

import (
	"errors"
	"strconv"

	api "k8s.io/api/core/v1"
	metav1 "k8s.io/apimachinery/pkg/apis/meta/v1"
	"k8s.io/apimachinery/pkg/util/intstr"
	gatewayv1 "sigs.k8s.io/gateway-api/apis/v1"

	convtypes "github.com/jcmoraisjr/haproxy-ingress/pkg/converters/types"
	"github.com/jcmoraisjr/haproxy-ingress/pkg/haproxy"
	nd "github.com/jcmoraisjr/haproxy-ingress/pkg/zzverifnd"
)

type zzC16Cache struct {
	convtypes.Cache
	svcs map[string]*api.Service
	eps  map[string]*api.Endpoints
}

func (c *zzC16Cache) GetService(defaultNamespace, serviceName string) (*api.Service, error) {
	if s, ok := c.svcs[serviceName]; ok {
		return s, nil
	}
	return nil, errors.New("service not found")
}

func (c *zzC16Cache) GetEndpoints(svc *api.Service) (*api.Endpoints, error) {
	if ep, ok := c.eps[svc.Namespace+"/"+svc.Name]; ok {
		return ep, nil
	}
	return nil, errors.New("endpoints not found")
}

type zzC16Tracker struct{ convtypes.Tracker }

func (zzC16Tracker) TrackRefName(refs []convtypes.TrackingRef, rtype convtypes.ResourceType, name string) {
}

// VerifC16_GatewayBackendRefs: a rule with REFS backendRefs; each has its weight omitted (the
// Gateway API default is 1) or explicit and symbolic in 0..MAXW, and 0..MAXL ready endpoints.
// Every server weight written is in 0..256, zero exactly when the configured weight of its
// backendRef is zero, and the traffic shares keep the configured order and proportions.
func VerifC16_GatewayBackendRefs() {
	n := nd.Param("REFS", 2)
	maxL := nd.Param("MAXL", 2)
	maxW := nd.Param("MAXW", 1000)
	cache := &zzC16Cache{svcs: map[string]*api.Service{}, eps: map[string]*api.Endpoints{}}
	hc := haproxy.CreateInstance(zzLogger{}, haproxy.InstanceOptions{}).Config()
	c := NewGatewayConverter(&convtypes.ConverterOptions{Logger: zzLogger{}, Cache: cache, Tracker: zzC16Tracker{}}, hc, nil, nil).(*converter)
	W := make([]int, n)
	L := make([]int, n)
	var refs []gatewayv1.BackendRef
	port := gatewayv1.PortNumber(8080)
	for i := 0; i < n; i++ {
		name := "s" + strconv.Itoa(i+1)
		svc := &api.Service{ObjectMeta: metav1.ObjectMeta{Namespace: "ns", Name: name}}
		svc.Spec.Ports = []api.ServicePort{{Name: "http", Port: 8080, TargetPort: intstr.FromInt(8080)}}
		cache.svcs["ns/"+name] = svc
		L[i] = nd.Choice("replicas", maxL+1)
		ep := &api.Endpoints{ObjectMeta: metav1.ObjectMeta{Namespace: "ns", Name: name}}
		var addrs []api.EndpointAddress
		for k := 0; k < L[i]; k++ {
			addrs = append(addrs, api.EndpointAddress{IP: "10." + strconv.Itoa(i+1) + ".0." + strconv.Itoa(k+1)})
		}
		ep.Subsets = []api.EndpointSubset{{Addresses: addrs, Ports: []api.EndpointPort{{Name: "http", Port: 8080, Protocol: api.ProtocolTCP}}}}
		cache.eps["ns/"+name] = ep
		ref := gatewayv1.BackendRef{}
		ref.Name = gatewayv1.ObjectName(name)
		ref.Port = &port
		W[i] = 1
		if nd.Bool("weight.set") {
			W[i] = nd.Int("w", 0, maxW)
			w32 := int32(W[i])
			ref.Weight = &w32
		}
		refs = append(refs, ref)
	}
	backend, _ := c.createBackend(&source{kind: "HTTPRoute", namespace: "ns", name: "r"}, "idx", refs)
	total := 0
	for _, l := range L {
		total += l
	}
	if backend == nil {
		nd.Reach("no-backend")
		return
	}
	nd.Assert(len(backend.Endpoints) == total, "one-server-per-ready-endpoint")
	// written weight per group, read back by address
	R := make([]int, n)
	for i := 0; i < n; i++ {
		R[i] = -1
		prefix := "10." + strconv.Itoa(i+1) + ".0."
		for _, ep := range backend.Endpoints {
			if len(ep.IP) > len(prefix) && ep.IP[:len(prefix)] == prefix {
				if R[i] >= 0 {
					nd.Assert(ep.Weight == R[i], "same-weight-inside-a-group")
				}
				R[i] = ep.Weight
			}
		}
	}
	for i := 0; i < n; i++ {
		if L[i] == 0 {
			continue
		}
		nd.Assert(R[i] >= 0 && R[i] <= 256, "weight-in-0-256")
		nd.Assert((R[i] == 0) == (W[i] == 0), "zero-iff-zero")
	}
	for i := 0; i < n; i++ {
		for j := 0; j < n; j++ {
			if i == j || L[i] == 0 || L[j] == 0 {
				continue
			}
			if W[i] <= W[j] {
				nd.Assert(R[i]*L[i] <= R[j]*L[j]+L[j]+L[i], "order-preserved")
			}
			if R[i] > 1 && R[j] > 1 {
				nd.Assert((R[i]-1)*L[i]*W[j] < (R[j]+2)*L[j]*W[i], "proportional")
			}
		}
	}
	nd.Reach("end")
}
