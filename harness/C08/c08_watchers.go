package reconciler

// C08 harness, watcher side: the Ingress handler with its own predicates (as controller-runtime
// applies them: all must accept) turns validity transitions into add / update / delete.

import (
	"context"

	networking "k8s.io/api/networking/v1"
	metav1 "k8s.io/apimachinery/pkg/apis/meta/v1"
	"sigs.k8s.io/controller-runtime/pkg/client"
	"sigs.k8s.io/controller-runtime/pkg/event"

	"github.com/jcmoraisjr/haproxy-ingress/pkg/controller/config"
	"github.com/jcmoraisjr/haproxy-ingress/pkg/controller/services"
	"github.com/jcmoraisjr/haproxy-ingress/pkg/converters/types"
	nd "github.com/jcmoraisjr/haproxy-ingress/pkg/zzverifnd"
)

// zzPlainVal answers validity from a table (no lock observation: predicates run outside the lock).
type zzPlainVal struct {
	services.IsValidResource
	answers map[*networking.Ingress]bool
}

func (v *zzPlainVal) IsValidIngress(ing *networking.Ingress) bool { return v.answers[ing] }

// VerifC08_WatcherTransitions: one Ingress event (create / update / delete). The validity of the
// old and the new object is symbolic; an update changes the annotations, the generation, both or
// neither (status-only update). What reaches the batch: a created or deleted Ingress iff it is
// selected; an update as update / add / delete according to the transition, and nothing at all
// when neither side is selected or nothing but the status changed.
func VerifC08_WatcherTransitions() {
	cfg := &config.Config{ConfigMapName: "ing/cfg", TCPConfigMapName: "ing/tcp"}
	val := &zzPlainVal{answers: map[*networking.Ingress]bool{}}
	w := createWatchers(context.Background(), cfg, val)
	q := &zzQueue{}
	var h *hdlr
	for _, x := range w.getHandlers() {
		if x.res == types.ResourceIngress {
			h = x
		}
	}
	nd.Assert(h != nil, "ingress-handler-exists")
	q.w = w
	ctx := context.Background()

	oldIng := &networking.Ingress{ObjectMeta: metav1.ObjectMeta{Namespace: "default", Name: "a", Generation: 1}}
	newIng := &networking.Ingress{ObjectMeta: metav1.ObjectMeta{Namespace: "default", Name: "a", Generation: 1}}
	oldValid, newValid := nd.Bool("old.valid"), nd.Bool("new.valid")
	val.answers[oldIng], val.answers[newIng] = oldValid, newValid
	annChanged, genChanged := nd.Bool("annotations.changed"), nd.Bool("generation.changed")
	if annChanged {
		newIng.Annotations = map[string]string{"kubernetes.io/ingress.class": "x"}
	}
	if genChanged {
		newIng.Generation = 2
	}
	evt := nd.Choice("event", 3)
	// controller-runtime hands the event to the handler only if every predicate accepts it
	pass := true
	for _, p := range h.pr {
		switch evt {
		case 0:
			pass = pass && p.Create(event.TypedCreateEvent[client.Object]{Object: newIng})
		case 1:
			pass = pass && p.Update(event.TypedUpdateEvent[client.Object]{ObjectOld: oldIng, ObjectNew: newIng})
		case 2:
			pass = pass && p.Delete(event.TypedDeleteEvent[client.Object]{Object: oldIng})
		}
	}
	if pass {
		switch evt {
		case 0:
			h.Create(ctx, event.TypedCreateEvent[client.Object]{Object: newIng}, q)
		case 1:
			h.Update(ctx, event.TypedUpdateEvent[client.Object]{ObjectOld: oldIng, ObjectNew: newIng}, q)
		case 2:
			h.Delete(ctx, event.TypedDeleteEvent[client.Object]{Object: oldIng}, q)
		}
	}
	ch := w.getChangedObjects()
	add, upd, del := len(ch.IngressesAdd), len(ch.IngressesUpd), len(ch.IngressesDel)
	switch evt {
	case 0:
		nd.Assert(upd == 0 && del == 0 && (add == 1) == newValid, "created-ingress-added-iff-selected")
		if newValid {
			nd.Assert(ch.IngressesAdd[0] == newIng && len(q.items) == 1, "created-ingress-added-iff-selected")
		}
	case 2:
		nd.Assert(upd == 0 && add == 0 && (del == 1) == oldValid, "deleted-ingress-removed-iff-it-was-selected")
		if oldValid {
			nd.Assert(ch.IngressesDel[0] == oldIng && len(q.items) == 1, "deleted-ingress-removed-iff-it-was-selected")
		}
	case 1:
		specChanged := annChanged || genChanged
		switch {
		case !specChanged:
			nd.Assert(add+upd+del == 0, "status-only-update-is-ignored")
		case oldValid && newValid:
			nd.Assert(upd == 1 && add+del == 0 && ch.IngressesUpd[0] == newIng, "selected-stays-selected-is-an-update")
		case !oldValid && newValid:
			nd.Assert(add == 1 && upd+del == 0 && ch.IngressesAdd[0] == newIng, "becoming-selected-adds")
		case oldValid && !newValid:
			nd.Assert(del == 1 && add+upd == 0 && ch.IngressesDel[0] == oldIng, "becoming-unselected-removes-what-it-had-added")
		default:
			nd.Assert(add+upd+del == 0 && len(ch.Links) == 0, "never-selected-leaves-no-trace")
		}
		if specChanged && (oldValid || newValid) {
			nd.Assert(len(q.items) == 1, "transition-triggers-a-reconciliation")
		}
	}
	nd.Reach("end")
}
