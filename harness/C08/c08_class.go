package services

// C08 harness: IsValidIngress / GetIngress / GetIngressList against the documented class rules.

import (
	"context"
	"errors"

	networking "k8s.io/api/networking/v1"
	metav1 "k8s.io/apimachinery/pkg/apis/meta/v1"
	"sigs.k8s.io/controller-runtime/pkg/client"

	"github.com/jcmoraisjr/haproxy-ingress/pkg/controller/config"
	nd "github.com/jcmoraisjr/haproxy-ingress/pkg/zzverifnd"
)

const (
	zzOurClass      = "h" // --ingress-class
	zzOurController = "k" // controller name
)

// zzClient answers IngressClass lookups and Ingress gets/lists from harness state.
type zzClient struct {
	client.Client
	classFound map[string]bool
	classErr   map[string]bool
	classCtrl  map[string]string
	ingresses  []networking.Ingress
	getCalls   []string
}

func (c *zzClient) Get(ctx context.Context, key client.ObjectKey, obj client.Object, opts ...client.GetOption) error {
	switch o := obj.(type) {
	case *networking.IngressClass:
		c.getCalls = append(c.getCalls, "ingressclass:"+key.Namespace+"/"+key.Name)
		if c.classErr[key.Name] {
			return errors.New("transient error")
		}
		if !c.classFound[key.Name] {
			return errors.New("not found")
		}
		o.Name = key.Name
		o.Spec.Controller = c.classCtrl[key.Name]
		return nil
	case *networking.Ingress:
		for i := range c.ingresses {
			if c.ingresses[i].Namespace == key.Namespace && c.ingresses[i].Name == key.Name {
				*o = c.ingresses[i]
				return nil
			}
		}
		return errors.New("not found")
	}
	return errors.New("unexpected kind")
}

func (c *zzClient) List(ctx context.Context, list client.ObjectList, opts ...client.ListOption) error {
	if l, ok := list.(*networking.IngressList); ok {
		l.Items = append([]networking.Ingress(nil), c.ingresses...)
		return nil
	}
	return errors.New("unexpected kind")
}

type zzIngCase struct {
	hasAnn   bool
	ann      string
	hasClass bool
	class    string
}

// zzSymbolicIngress builds an Ingress with an arbitrary classification and returns what was chosen.
func zzSymbolicIngress(name string, cl *zzClient) (networking.Ingress, zzIngCase) {
	var k zzIngCase
	ing := networking.Ingress{ObjectMeta: metav1.ObjectMeta{Namespace: "default", Name: name}}
	k.hasAnn = nd.Bool(name + ".hasAnn")
	if k.hasAnn {
		// 0..1 byte: "", ours ("h"), foreign ("x")
		k.ann = nd.String(name+".ann", nd.Choice(name+".annlen", 2), "hx")
		ing.Annotations = map[string]string{"kubernetes.io/ingress.class": k.ann}
	} else if nd.Bool(name + ".otherAnn") {
		ing.Annotations = map[string]string{"haproxy-ingress.github.io/ingress.class": zzOurClass}
	}
	k.hasClass = nd.Bool(name + ".hasClass")
	if k.hasClass {
		k.class = nd.String(name+".class", 1, "cd")
		cn := k.class
		ing.Spec.IngressClassName = &cn
	}
	return ing, k
}

// zzDocSelects is the documented rule (keys.md "Class matter", command-line.md "Ingress class").
func zzDocSelects(k zzIngCase, cl *zzClient, watchWithoutClass, classPrecedence bool) bool {
	annOurs := k.hasAnn && k.ann == zzOurClass
	classOurs := k.hasClass && !cl.classErr[k.class] && cl.classFound[k.class] && cl.classCtrl[k.class] == zzOurController
	switch {
	case k.hasAnn && k.hasClass:
		if annOurs != classOurs && classPrecedence {
			return classOurs
		}
		return annOurs
	case k.hasAnn:
		return annOurs
	case k.hasClass:
		return classOurs
	}
	return watchWithoutClass
}

func zzSymbolicCluster() (*c, *zzClient, bool, bool) {
	cl := &zzClient{classFound: map[string]bool{}, classErr: map[string]bool{}, classCtrl: map[string]string{}}
	for _, name := range []string{"c", "d"} {
		cl.classFound[name] = nd.Bool("class." + name + ".found")
		cl.classErr[name] = nd.Bool("class." + name + ".err")
		cl.classCtrl[name] = nd.String("class."+name+".controller", nd.Choice("class."+name+".ctrllen", 2), "kz")
	}
	watch := nd.Bool("watchWithoutClass")
	prec := nd.Bool("classPrecedence")
	cache := createCacheFacade(context.Background(), cl, &config.Config{
		IngressClass:             zzOurClass,
		ControllerName:           zzOurController,
		WatchIngressWithoutClass: watch,
		IngressClassPrecedence:   prec,
	}, nil, nil, nil, nil)
	return cache, cl, watch, prec
}

// VerifC08_IsValidIngress: the decision equals the documented rule for every classification.
func VerifC08_IsValidIngress() {
	cache, cl, watch, prec := zzSymbolicCluster()
	ing, k := zzSymbolicIngress("i1", cl)
	got := cache.IsValidIngress(&ing)
	want := zzDocSelects(k, cl, watch, prec)
	nd.Assert(got == want, "class-decision-matches-doc")
	if got {
		nd.Reach("selected")
	} else {
		nd.Reach("rejected")
	}
	nd.Reach("end")
}

// VerifC08_Getters: GetIngressList returns exactly the selected ingresses (in list order) and
// GetIngress refuses an unselected one, so an unselected Ingress never reaches the converter.
func VerifC08_Getters() {
	cache, cl, watch, prec := zzSymbolicCluster()
	i1, k1 := zzSymbolicIngress("i1", cl)
	i2, k2 := zzSymbolicIngress("i2", cl)
	cl.ingresses = []networking.Ingress{i1, i2}
	w1 := zzDocSelects(k1, cl, watch, prec)
	w2 := zzDocSelects(k2, cl, watch, prec)

	list, err := cache.GetIngressList()
	nd.Assert(err == nil, "list-no-error")
	n := 0
	if w1 {
		n++
	}
	if w2 {
		n++
	}
	nd.Assert(len(list) == n, "list-size")
	idx := 0
	if w1 {
		nd.Assert(list[idx].Name == "i1", "list-has-i1")
		idx++
	}
	if w2 {
		nd.Assert(list[idx].Name == "i2", "list-has-i2")
	}

	g1, err1 := cache.GetIngress("default/i1")
	nd.Assert((err1 == nil) == w1, "get-refuses-unselected")
	if err1 != nil {
		nd.Assert(g1 == nil, "get-returns-nothing-on-refusal")
	} else {
		nd.Assert(g1 != nil && g1.Name == "i1", "get-returns-object")
	}
	nd.Reach("end")
}
