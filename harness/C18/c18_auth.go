package annotations

// C18 harness: external authentication fails closed.

import (
	"errors"

	ingtypes "github.com/jcmoraisjr/haproxy-ingress/pkg/converters/ingress/types"
	convtypes "github.com/jcmoraisjr/haproxy-ingress/pkg/converters/types"
	"github.com/jcmoraisjr/haproxy-ingress/pkg/haproxy"
	hatypes "github.com/jcmoraisjr/haproxy-ingress/pkg/haproxy/types"
	nd "github.com/jcmoraisjr/haproxy-ingress/pkg/zzverifnd"
)

type zzC18Logger struct{}

func (zzC18Logger) InfoV(v int, msg string, args ...interface{}) {}
func (zzC18Logger) Info(msg string, args ...interface{})         {}
func (zzC18Logger) Warn(msg string, args ...interface{})         {}
func (zzC18Logger) Error(msg string, args ...interface{})        {}
func (zzC18Logger) Fatal(msg string, args ...interface{})        {}

type zzC18Host struct{}

func (zzC18Host) UseTLS() bool { return true }

var zzC18URLs = []string{
	"",                       // not declared
	"http://10.0.0.1",        // fine
	"https://auth.local/chk", // needs DNS
	"svc://authsvc:80/x",     // service, may be missing
	"svc://authsvc",          // missing port
	"ftp://10.0.0.1",         // unknown protocol
	"http://a b",             // malformed
	"svc://other/authsvc:80", // service in another namespace (not there)
}
var zzC18Placements = []string{"", "backend", "frontend", "Frontend", "xyz"}
var zzC18OAuth = []string{"", "oauth2_proxy", "oauth2-proxy", "other"}

func zzProtected(a *hatypes.AuthExternal) bool {
	return a != nil && (a.AlwaysDeny || a.AuthBackendName != "")
}

// VerifC18_FailClosed: one host, one backend, two paths with independent auth declarations.
// Whatever fails (URL, protocol, service, DNS, auth-proxy ports, Lua), a path that declares
// external authentication ends up with an auth backend or with deny-all.
func VerifC18_FailClosed() {
	logger := zzC18Logger{}
	hc := haproxy.CreateInstance(logger, haproxy.InstanceOptions{}).Config()
	// auth-proxy range of size 0..2, possibly partly taken by an unrelated backend
	hc.Frontend().AuthProxy.Name = "_front__auth"
	hc.Frontend().AuthProxy.RangeStart = 14415
	hc.Frontend().AuthProxy.RangeEnd = 14415 + nd.Choice("rangesize", 3) - 1
	if nd.Bool("range.preused") {
		_, _ = hc.Frontend().AcquireAuthBackendName(hatypes.BackendID{Namespace: "other", Name: "app", Port: "8080"})
	}
	hc.Global().External.IsExternal = nd.Bool("external")
	hc.Global().External.HasLua = nd.Bool("haslua")
	dnsFails := nd.Bool("dnsfails")
	lookupHost = func(host string) ([]string, error) {
		if dnsFails {
			return nil, errors.New("no such host")
		}
		return []string{"10.0.0.9", "10.0.0.8"}, nil
	}
	if nd.Bool("authsvc.exists") {
		hc.Backends().AcquireBackend("default", "authsvc", "80")
	}

	c := NewUpdater(hc, &convtypes.ConverterOptions{DynamicConfig: &convtypes.DynamicConfig{}, Logger: logger}).(*updater)
	src := &Source{Namespace: "default", Name: "ing1", Type: convtypes.ResourceIngress}
	defaults := map[string]string{
		ingtypes.BackAuthExternalPlacement: "backend",
		ingtypes.BackAuthMethod:            "GET",
		ingtypes.BackAuthHeadersRequest:    "*",
		ingtypes.BackAuthHeadersSucceed:    "*",
		ingtypes.BackAuthHeadersFail:       "*",
	}
	hostMapper := NewMapBuilder(logger, defaults).NewMapper()
	backMapper := NewMapBuilder(logger, defaults).NewMapper()

	host := hc.Hosts().AcquireHost("app.local")
	backend := hc.Backends().AcquireBackend("default", "app", "8080")
	if nd.Bool("oauthsvc.exists") {
		ob := hc.Backends().AcquireBackend("default", "oauth", "4180")
		host.AddPath(ob, "/oauth2", hatypes.MatchPrefix)
	}

	npaths := nd.Param("PATHS", 2)
	paths := []string{"/a", "/b"}[:npaths]
	urls := make([]string, npaths)
	places := make([]string, npaths)
	oauths := make([]string, npaths)
	for i, p := range paths {
		hp := host.AddPath(backend, p, hatypes.MatchPrefix)
		bp := backend.AddBackendPath(hp.Link)
		bp.Host = zzC18Host{}
		ann := map[string]string{}
		urls[i] = zzC18URLs[nd.Choice("url", nd.Param("URLS", len(zzC18URLs)))]
		if urls[i] != "" {
			ann[ingtypes.BackAuthURL] = urls[i]
		}
		places[i] = zzC18Placements[nd.Choice("placement", nd.Param("PLACEMENTS", len(zzC18Placements)))]
		if places[i] != "" {
			ann[ingtypes.BackAuthExternalPlacement] = places[i]
		}
		oauths[i] = zzC18OAuth[nd.Choice("oauth", len(zzC18OAuth))]
		if oauths[i] != "" {
			ann[ingtypes.BackOAuth] = oauths[i]
		}
		// an annotation written on the Service reaches the backend mapper only; auth-url may be
		// such an annotation while the placement comes from the Ingress
		hostAnn := ann
		if urls[i] != "" && nd.Bool("url.declared.on.the.service") {
			hostAnn = map[string]string{}
			for k, v := range ann {
				if k != ingtypes.BackAuthURL {
					hostAnn[k] = v
				}
			}
		}
		hostMapper.AddAnnotations(src, hp.Link, hostAnn)
		backMapper.AddAnnotations(src, hp.Link, ann)
	}

	// the order of UpdateHostConfig / UpdateBackendConfig
	c.buildHostAuthExternal(&hostData{host: host, mapper: hostMapper})
	d := &backData{backend: backend, mapper: backMapper}
	c.buildBackendAuthExternal(d)
	c.buildBackendOAuth(d)

	for i, p := range paths {
		var bp *hatypes.BackendPath
		for _, x := range backend.Paths {
			if x.Link.Equals(hatypes.CreateHostPathLink("app.local", p, hatypes.MatchPrefix)) {
				bp = x
			}
		}
		var hp *hatypes.HostPath
		for _, x := range host.Paths {
			if x.Path() == p {
				hp = x
			}
		}
		nd.Assert(bp != nil && hp != nil, "paths-exist")
		placeBackend := places[i] == "" || places[i] == "backend"
		placeFrontend := places[i] == "frontend" || places[i] == "Frontend"
		declared := (urls[i] != "" && (placeBackend || placeFrontend)) || oauths[i] != ""
		if declared {
			nd.Record("path " + p + ": auth-url=" + urls[i] + " placement=" + places[i] + " oauth=" + oauths[i])
			nd.Assert(zzProtected(&bp.AuthExternal) || zzProtected(hp.AuthExt), "declared-auth-is-enforced-or-denied")
			nd.Reach("declared")
		}
		if zzProtected(&bp.AuthExternal) && !bp.AuthExternal.AlwaysDeny {
			// an intercepting configuration names a backend the template can reference
			nd.Assert(bp.AuthExternal.AuthBackendName != "" && bp.AuthExternal.AuthPath != "", "intercept-is-complete")
			nd.Reach("intercepted")
		}
		if bp.AuthExternal.AlwaysDeny {
			nd.Reach("denied")
		}
	}
	nd.Reach("end")
}
