package reconciler

// C14 harness: every accepted event lands in exactly one batch; batches chain ConfigMap data;
// class transitions become add/del; everything that touches the pending batch runs under the lock.

import (
	"context"

	api "k8s.io/api/core/v1"
	discoveryv1 "k8s.io/api/discovery/v1"
	networking "k8s.io/api/networking/v1"
	metav1 "k8s.io/apimachinery/pkg/apis/meta/v1"
	"k8s.io/client-go/util/workqueue"
	"sigs.k8s.io/controller-runtime/pkg/client"
	"sigs.k8s.io/controller-runtime/pkg/event"

	"github.com/jcmoraisjr/haproxy-ingress/pkg/controller/config"
	"github.com/jcmoraisjr/haproxy-ingress/pkg/controller/services"
	"github.com/jcmoraisjr/haproxy-ingress/pkg/converters/types"
	nd "github.com/jcmoraisjr/haproxy-ingress/pkg/zzverifnd"
)

type zzVal struct {
	services.IsValidResource
	w       *watchers
	answers map[*networking.Ingress]bool
}

func (v *zzVal) IsValidIngress(ing *networking.Ingress) bool {
	nd.Assert(nd.LockHeld(&v.w.mu), "validity-checked-under-lock")
	a, ok := v.answers[ing]
	if !ok {
		a = nd.Bool("valid")
		v.answers[ing] = a
	}
	return a
}

type zzQueue struct {
	workqueue.TypedRateLimitingInterface[rparam]
	w     *watchers
	items []rparam
}

func (q *zzQueue) AddRateLimited(item rparam) {
	nd.Assert(nd.LockHeld(&q.w.mu), "notify-under-lock")
	q.items = append(q.items, item)
}

// zzSecret is a Secret whose name is read through a method the harness can observe: compose()
// reads the object's name, which must happen inside the critical section.
type zzSecret struct {
	*api.Secret
	w *watchers
}

func (s zzSecret) GetName() string {
	nd.Assert(nd.LockHeld(&s.w.mu), "compose-under-lock")
	return s.Secret.Name
}

func zzHandler(hs []*hdlr, res types.ResourceType, sample client.Object) *hdlr {
	for _, h := range hs {
		if h.res != res {
			continue
		}
		switch sample.(type) {
		case *api.Endpoints:
			if _, ok := h.typ.(*api.Endpoints); !ok {
				continue
			}
		case *discoveryv1.EndpointSlice:
			if _, ok := h.typ.(*discoveryv1.EndpointSlice); !ok {
				continue
			}
		}
		return h
	}
	return nil
}

func zzHas(list []string, s string) bool {
	n := 0
	for _, x := range list {
		if x == s {
			n++
		}
	}
	return n == 1
}

type zzExpect struct {
	links   map[types.ResourceType][]string
	objects []string
	ingAdd  []*networking.Ingress
	ingUpd  []*networking.Ingress
	ingDel  []*networking.Ingress
	n       int
}

func zzNewExpect() *zzExpect {
	return &zzExpect{links: map[types.ResourceType][]string{}}
}

func zzAddUnique(l []string, s string) []string {
	for _, x := range l {
		if x == s {
			return l
		}
	}
	return append(l, s)
}

// VerifC14_Batches: a serial schedule of K steps, each an event (kind, type, object) or a batch
// swap, chosen by the solver.
func VerifC14_Batches() {
	cfg := &config.Config{ConfigMapName: "ing/cfg", TCPConfigMapName: "ing/tcp"}
	val := &zzVal{answers: map[*networking.Ingress]bool{}}
	w := createWatchers(context.Background(), cfg, val)
	val.w = w
	q := &zzQueue{w: w}
	hs := w.getHandlers()
	ctx := context.Background()
	names := []string{"a", "b"}

	exp := zzNewExpect()
	var lastGlobal, lastTCP map[string]string // data delivered by the latest ConfigMap events
	var curGlobal, curTCP map[string]string   // what the next batch must report as current
	steps := nd.Param("K", 3)
	swaps := 0
	// batches already handed to the reconciler, with a copy of their descriptions: whatever
	// happens later must not touch them (the reconciler reads them outside the lock)
	var handed []*types.ChangedObjects
	var handedObjects [][]string
	untouched := func() {
		for i, ch := range handed {
			nd.Assert(len(ch.Objects) == len(handedObjects[i]), "handed-batch-is-not-touched-afterwards")
			for k := range ch.Objects {
				nd.Assert(ch.Objects[k] == handedObjects[i][k], "handed-batch-is-not-touched-afterwards")
			}
		}
	}
	for s := 0; s < steps; s++ {
		var op int
		if nd.Param("CHAIN", 0) == 1 {
			// longer histories over the two ConfigMaps and swaps only (data chaining)
			op = []int{0, 1, 5}[nd.Choice("op", 3)]
		} else {
			op = nd.Choice("op", 7)
		}
		if op == 5 {
			// the reconciler takes its batch
			ch := w.getChangedObjects()
			nd.Assert(!nd.LockHeld(&w.mu), "lock-released-after-swap")
			swaps++
			for res, l := range exp.links {
				for _, name := range l {
					nd.Assert(zzHas(ch.Links[res], name), "event-link-in-next-batch")
				}
			}
			nlinks := 0
			for _, l := range ch.Links {
				nlinks += len(l)
			}
			elinks := 0
			for _, l := range exp.links {
				elinks += len(l)
			}
			nd.Assert(nlinks == elinks, "batch-has-only-events-since-last-swap")
			nd.Assert(len(ch.Objects) == len(exp.objects), "batch-object-list-size")
			for _, o := range exp.objects {
				nd.Assert(zzHas(ch.Objects, o), "event-description-in-next-batch")
			}
			nd.Assert(len(ch.IngressesAdd) == len(exp.ingAdd) && len(ch.IngressesUpd) == len(exp.ingUpd) && len(ch.IngressesDel) == len(exp.ingDel), "ingress-lists-size")
			for i := range exp.ingAdd {
				nd.Assert(ch.IngressesAdd[i] == exp.ingAdd[i], "ingress-add-list")
			}
			for i := range exp.ingUpd {
				nd.Assert(ch.IngressesUpd[i] == exp.ingUpd[i], "ingress-upd-list")
			}
			for i := range exp.ingDel {
				nd.Assert(ch.IngressesDel[i] == exp.ingDel[i], "ingress-del-list")
			}
			// ConfigMap chaining
			nd.Assert(zzSameMap(ch.GlobalConfigMapDataCur, curGlobal), "global-configmap-cur-is-previously-delivered")
			nd.Assert(zzSameMap(ch.GlobalConfigMapDataNew, lastGlobal), "global-configmap-new")
			nd.Assert(zzSameMap(ch.TCPConfigMapDataCur, curTCP), "tcp-configmap-cur-is-previously-delivered")
			nd.Assert(zzSameMap(ch.TCPConfigMapDataNew, lastTCP), "tcp-configmap-new")
			if lastGlobal != nil {
				curGlobal = lastGlobal
			}
			if lastTCP != nil {
				curTCP = lastTCP
			}
			lastGlobal, lastTCP = nil, nil
			exp = zzNewExpect()
			untouched()
			handed = append(handed, ch)
			handedObjects = append(handedObjects, append([]string(nil), ch.Objects...))
			continue
		}
		evt := nd.Choice("event", 3) // create, update, delete
		name := names[nd.Choice("name", 2)]
		evname := []string{"add", "update", "del"}[evt]
		before := len(q.items)
		var res types.ResourceType
		var full string
		switch op {
		case 0, 1: // global / tcp ConfigMap
			res = types.ResourceConfigMap
			h := zzHandler(hs, res, nil)
			cmname := []string{"cfg", "tcp"}[op]
			data := map[string]string{"k": name}
			cm := &api.ConfigMap{ObjectMeta: metav1.ObjectMeta{Namespace: "ing", Name: cmname}, Data: data}
			zzFire(ctx, h, evt, cm, cm, q)
			full = "ing/" + cmname
			if evt != 2 {
				if op == 0 {
					lastGlobal = data
				} else {
					lastTCP = data
				}
			}
		case 2: // Service
			res = types.ResourceService
			h := zzHandler(hs, res, nil)
			o := &api.Service{ObjectMeta: metav1.ObjectMeta{Namespace: "default", Name: name}}
			zzFire(ctx, h, evt, o, o, q)
			full = "default/" + name
		case 3: // Secret, with the observable name
			res = types.ResourceSecret
			h := zzHandler(hs, res, nil)
			o := zzSecret{Secret: &api.Secret{ObjectMeta: metav1.ObjectMeta{Namespace: "default", Name: name}}, w: w}
			zzFire(ctx, h, evt, o, o, q)
			full = "default/" + name
		case 6: // EndpointSlice: linked under the name of its Service (label), else its own name
			res = types.ResourceEndpoints
			h := zzHandler(hs, res, &discoveryv1.EndpointSlice{})
			o := &discoveryv1.EndpointSlice{ObjectMeta: metav1.ObjectMeta{Namespace: "default", Name: name + "-x7k2p"}}
			full = "default/" + name + "-x7k2p"
			if nd.Bool("slice.label") {
				o.Labels = map[string]string{"kubernetes.io/service-name": name}
				full = "default/" + name
			}
			zzFire(ctx, h, evt, o, o, q)
		case 4: // Ingress, with class transitions on update
			res = types.ResourceIngress
			h := zzHandler(hs, res, nil)
			oldIng := &networking.Ingress{ObjectMeta: metav1.ObjectMeta{Namespace: "default", Name: name}}
			newIng := &networking.Ingress{ObjectMeta: metav1.ObjectMeta{Namespace: "default", Name: name}}
			zzFire(ctx, h, evt, oldIng, newIng, q)
			full = "default/" + name
			switch evt {
			case 0:
				exp.ingAdd = append(exp.ingAdd, newIng)
			case 2:
				exp.ingDel = append(exp.ingDel, newIng)
			case 1:
				ov, nv := val.answers[oldIng], val.answers[newIng]
				switch {
				case ov && nv:
					exp.ingUpd = append(exp.ingUpd, newIng)
				case !ov && nv:
					exp.ingAdd = append(exp.ingAdd, newIng)
				case ov && !nv:
					exp.ingDel = append(exp.ingDel, oldIng)
				}
			}
		}
		nd.Assert(!nd.LockHeld(&w.mu), "lock-released-after-event")
		nd.Assert(len(q.items) == before+1 && !q.items[before].fullsync, "event-enqueues-partial-reconcile")
		exp.links[res] = zzAddUnique(exp.links[res], full)
		exp.objects = zzAddUnique(exp.objects, evname+"/"+string(res)+":"+full)
	}
	untouched()
	if swaps > 0 {
		nd.Reach("swapped")
	}
	nd.Reach("end")
}

func zzSameMap(a, b map[string]string) bool {
	if (a == nil) != (b == nil) || len(a) != len(b) {
		return false
	}
	for k, v := range a {
		if b[k] != v {
			return false
		}
	}
	return true
}

func zzFire(ctx context.Context, h *hdlr, evt int, oldObj, newObj client.Object, q workqueue.TypedRateLimitingInterface[rparam]) {
	switch evt {
	case 0:
		h.Create(ctx, event.TypedCreateEvent[client.Object]{Object: newObj}, q)
	case 1:
		h.Update(ctx, event.TypedUpdateEvent[client.Object]{ObjectOld: oldObj, ObjectNew: newObj}, q)
	case 2:
		h.Delete(ctx, event.TypedDeleteEvent[client.Object]{Object: newObj}, q)
	}
}
