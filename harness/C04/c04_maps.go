package types

// C04 harness: HostsMap file layout (addTarget, rebuildMatchFiles, overlaps, sorts) evaluated with
// HAProxy's str/beg/dir lookup semantics in emitted file order, against the documented precedence.

import (
	nd "github.com/jcmoraisjr/haproxy-ingress/pkg/zzverifnd"
)

var zzC04Hosts = []string{"d.l", "x.d.l"}
var zzC04Types = []MatchType{MatchExact, MatchPrefix, MatchBegin}
var zzC04Orders = [][]MatchType{
	{MatchExact, MatchPrefix, MatchBegin, MatchRegex},
	{MatchExact, MatchBegin, MatchPrefix, MatchRegex},
	{MatchPrefix, MatchExact, MatchBegin, MatchRegex},
	{MatchPrefix, MatchBegin, MatchExact, MatchRegex},
	{MatchBegin, MatchExact, MatchPrefix, MatchRegex},
	{MatchBegin, MatchPrefix, MatchExact, MatchRegex},
}

const zzC04Alphabet = "aA/"

func zzLowerByte(b byte) byte {
	if b >= 'A' && b <= 'Z' {
		return b + 32
	}
	return b
}

func zzLower(s string) string {
	b := []byte(s)
	for i := range b {
		b[i] = zzLowerByte(b[i])
	}
	return string(b)
}

func zzHasPrefix(s, p string) bool { return len(s) >= len(p) && s[:len(p)] == p }

// zzDirMatch is HAProxy's pat_match_dir: the pattern, stripped of leading and trailing '/',
// must occur in the sample starting at the beginning or right after a '/', and ending at the
// end or right before a '/'.
func zzDirMatch(sample, pattern string) bool {
	ps, pe := 0, len(pattern)
	for ps < pe && pattern[ps] == '/' {
		ps++
	}
	for pe > ps && pattern[pe-1] == '/' {
		pe--
	}
	pat := pattern[ps:pe]
	if len(pat) == 0 {
		return true
	}
	for i := 0; i+len(pat) <= len(sample); i++ {
		if i > 0 && sample[i-1] != '/' {
			continue
		}
		if sample[i:i+len(pat)] != pat {
			continue
		}
		end := i + len(pat)
		if end == len(sample) || sample[end] == '/' {
			return true
		}
	}
	return false
}

// zzKeyMatches: does one map key of the given lookup method match the sample?
func zzKeyMatches(method string, lower bool, sample, key string) bool {
	if lower {
		sample = zzLower(sample)
	}
	switch method {
	case "str":
		return sample == key
	case "beg":
		return zzHasPrefix(sample, key)
	case "dir":
		return zzDirMatch(sample, key)
	}
	return false
}

// zzLookup walks the emitted files in order; the first file with a hit decides (the template
// guards every later lookup with `if !{ var(req.backend) -m found }`), inside a file the first
// matching line in file order decides.
func zzLookup(files []*MatchFile, sample string) string {
	for _, f := range files {
		for _, e := range f.Values() {
			if zzKeyMatches(f.Method(), f.Lower(), sample, e.Key) {
				return e.Value
			}
		}
	}
	return ""
}

type zzRule struct {
	host  string
	path  string
	match MatchType
	id    string
}

func zzMethodOf(m MatchType) (string, bool) {
	switch m {
	case MatchExact:
		return "str", false
	case MatchPrefix:
		return "dir", false
	}
	return "beg", true
}

// zzRuleMatches: the rule alone, under its documented match type, applies to the request.
func zzRuleMatches(r zzRule, host, path string) bool {
	if r.host != host {
		return false
	}
	method, lower := zzMethodOf(r.match)
	key := r.host + "#" + r.path
	if lower {
		key = zzLower(key)
	}
	return zzKeyMatches(method, lower, host+"#"+path, key)
}

func zzNoEmptySegment(p string) bool {
	for i := 0; i+1 < len(p); i++ {
		if p[i] == '/' && p[i+1] == '/' {
			return false
		}
	}
	return true
}

// zzC04Check compares the lookup of one request over the generated files with the documented
// outcome: an exact rule equal to the path if there is one, else a matching rule with the longest
// declared path, never a rule of another host.
func zzC04Check(rules []zzRule, files []*MatchFile, reqHost, reqPath string) {
	got := zzLookup(files, reqHost+"#"+reqPath)

	// the documented outcome
	exact := ""
	best := -1
	anyMatch := false
	for _, r := range rules {
		if !zzRuleMatches(r, reqHost, reqPath) {
			continue
		}
		anyMatch = true
		if r.match == MatchExact {
			exact = r.id
		}
		if len(r.path) > best {
			best = len(r.path)
		}
	}
	if !anyMatch {
		nd.Assert(got == "", "no-rule-no-hit")
		nd.Reach("miss")
		return
	}
	nd.Assert(got != "", "matching-rule-found")
	var w zzRule
	for _, r := range rules {
		if r.id == got {
			w = r
		}
	}
	nd.Assert(w.host == reqHost, "never-another-host")
	nd.Assert(zzRuleMatches(w, reqHost, reqPath), "selected-rule-matches")
	if exact != "" {
		nd.Assert(w.match == MatchExact, "exact-first")
		nd.Reach("exact-hit")
	} else {
		nd.Assert(len(w.path) == best, "longest-declared-path")
		nd.Reach("longest-hit")
	}
}

var zzC04Chain = []string{"/", "/a", "/a/b", "/a/b/c", "/a/b/c/d", "/a/b/c/d/e"}

// VerifC04_NestedChain: LEVELS nested paths of one host (/, /a, /a/b, ...), each present or not and
// of any type, declared shallow-first or deep-first, under any path-type order; every request
// among the declared paths and their neighbours (p, p/, p/x, px) is answered as documented.
// Deep chains of alternating types exercise the moves of entries between match files and the
// bounds (_upper) they leave behind from one pairing to the next.
func VerifC04_NestedChain() {
	levels := nd.Param("LEVELS", 5)
	order := zzC04Orders[nd.Choice("order", nd.Param("ORDERS", len(zzC04Orders)))]
	optional := nd.Param("OPTIONAL", 0) == 1
	var rules []zzRule
	for i := 0; i < levels; i++ {
		if optional && !nd.Bool("present") {
			continue
		}
		rules = append(rules, zzRule{host: "d.l", path: zzC04Chain[i], match: zzC04Types[nd.Choice("type", len(zzC04Types))], id: string(rune('1' + i))})
	}
	if nd.Bool("deep.first") {
		for i, j := 0, len(rules)-1; i < j; i, j = i+1, j-1 {
			rules[i], rules[j] = rules[j], rules[i]
		}
	}
	if nd.Bool("other.host") {
		rules = append(rules, zzRule{host: "x.d.l", path: "/a/b", match: MatchPrefix, id: "9"})
	}
	maps := CreateMaps(order)
	hm := maps.AddMap("/m/_front.map")
	for i, r := range rules {
		hp := &HostPath{order: i, Link: CreateHostPathLink(r.host, r.path, r.match)}
		hm.AddHostnamePathMapping(r.host, hp, r.id)
	}
	files := hm.MatchFiles()
	for i := 0; i < levels; i++ {
		p := zzC04Chain[i]
		probes := []string{p, p + "x", p + "/x"}
		if p != "/" {
			probes = append(probes, p+"/")
		} else {
			probes = []string{"/", "/x", "/x/y"}
		}
		for _, req := range probes {
			nd.Record("request " + req)
			zzC04Check(rules, files, "d.l", req)
		}
	}
	nd.Reach("end")
}

var zzC04Tree = []string{"/", "/a", "/ay", "/az", "/az/y", "/az/y/x"}

// VerifC04_Tree: a small tree of paths of one host with siblings (/ay and /az under /a, a chain
// below /az), each rule present or not and of any type, declared in list order or reversed, under
// any path-type order; probes: every declared path, p/foo and px.
func VerifC04_Tree() {
	order := zzC04Orders[nd.Choice("order", nd.Param("ORDERS", len(zzC04Orders)))]
	var rules []zzRule
	for i, p := range zzC04Tree {
		if !nd.Bool("present") {
			continue
		}
		rules = append(rules, zzRule{host: "d.l", path: p, match: zzC04Types[nd.Choice("type", len(zzC04Types))], id: string(rune('1' + i))})
	}
	if nd.Bool("reversed") {
		for i, j := 0, len(rules)-1; i < j; i, j = i+1, j-1 {
			rules[i], rules[j] = rules[j], rules[i]
		}
	}
	maps := CreateMaps(order)
	hm := maps.AddMap("/m/_front.map")
	for i, r := range rules {
		hp := &HostPath{order: i, Link: CreateHostPathLink(r.host, r.path, r.match)}
		hm.AddHostnamePathMapping(r.host, hp, r.id)
	}
	files := hm.MatchFiles()
	for _, p := range zzC04Tree {
		probes := []string{p, p + "x"}
		if p == "/" {
			probes = []string{"/", "/foo"}
		} else {
			probes = append(probes, p+"/foo")
		}
		for _, req := range probes {
			nd.Record("request " + req)
			zzC04Check(rules, files, "d.l", req)
		}
	}
	nd.Reach("end")
}

// VerifC04_Precedence: N rules (host, path, type) and one request; the lookup over the generated
// files returns an exact rule equal to the path if there is one, else a matching rule with the
// longest declared path, and never a rule of another host.
func VerifC04_Precedence() {
	n := nd.Param("RULES", 2)
	maxP := nd.Param("MAXPATH", 2)
	maxR := nd.Param("MAXREQ", 3)
	nhosts := nd.Param("HOSTS", 2)
	order := zzC04Orders[nd.Choice("order", nd.Param("ORDERS", len(zzC04Orders)))]

	rules := make([]zzRule, n)
	for i := 0; i < n; i++ {
		r := zzRule{
			host:  zzC04Hosts[nd.Choice("host", nhosts)],
			match: zzC04Types[nd.Choice("type", len(zzC04Types))],
			id:    string(rune('1' + i)),
		}
		r.path = "/" + nd.String("path", nd.Choice("pathlen", maxP+1), zzC04Alphabet)
		nd.Assume(zzNoEmptySegment(r.path))
		for j := 0; j < i; j++ {
			// the converter rejects a second declaration of the same (host, path, type)
			nd.Assume(!(rules[j].host == r.host && rules[j].path == r.path && rules[j].match == r.match))
		}
		rules[i] = r
	}

	maps := CreateMaps(order)
	hm := maps.AddMap("/m/_front.map")
	for i, r := range rules {
		hp := &HostPath{order: i, Link: CreateHostPathLink(r.host, r.path, r.match)}
		hm.AddHostnamePathMapping(r.host, hp, r.id)
	}
	files := hm.MatchFiles()

	reqHost := zzC04Hosts[nd.Choice("reqhost", nhosts)]
	reqPath := "/" + nd.String("req", nd.Choice("reqlen", maxR+1), zzC04Alphabet)
	nd.Assume(zzNoEmptySegment(reqPath))
	zzC04Check(rules, files, reqHost, reqPath)
	nd.Reach("end")
}
