package annotations

// C19 harness: buildBackendCustomConfig / firstToken / utils.LineToSlice on symbolic snippets.

import (
	ingtypes "github.com/jcmoraisjr/haproxy-ingress/pkg/converters/ingress/types"
	convtypes "github.com/jcmoraisjr/haproxy-ingress/pkg/converters/types"
	hatypes "github.com/jcmoraisjr/haproxy-ingress/pkg/haproxy/types"
	nd "github.com/jcmoraisjr/haproxy-ingress/pkg/zzverifnd"
)

type zzLogger struct{}

func (zzLogger) InfoV(v int, msg string, args ...interface{}) {}
func (zzLogger) Info(msg string, args ...interface{})         {}
func (zzLogger) Warn(msg string, args ...interface{})         {}
func (zzLogger) Error(msg string, args ...interface{})        {}
func (zzLogger) Fatal(msg string, args ...interface{})        {}

// zzIsSpace is C isspace(), which HAProxy's configuration parser uses to skip leading blanks
// and to end a word.
func zzIsSpace(b byte) bool {
	return b == ' ' || b == '\t' || b == '\n' || b == '\v' || b == '\f' || b == '\r'
}

// zzHasDisabledFirstWord is the reference: does some line of the snippet (lines end at '\n')
// start, after optional blanks, with exactly the word kw?
func zzHasDisabledFirstWord(snippet, kw string) bool {
	i := 0
	for i <= len(snippet) {
		// [i, j) is one line
		j := i
		for j < len(snippet) && snippet[j] != '\n' {
			j++
		}
		s := i
		for s < j && zzIsSpace(snippet[s]) {
			s++
		}
		e := s
		for e < j && !zzIsSpace(snippet[e]) {
			e++
		}
		if snippet[s:e] == kw {
			return true
		}
		i = j + 1
	}
	return false
}

var zzKeywordChoices = []string{"", "*", "a", "ab", "b", "A", "aa"}

const zzSnippetAlphabet = " \t\n\rabA"

// VerifC19_Snippet: with keyword list [k1, k2] (k1 from a fixed list incl. "" and "*", k2 an
// arbitrary 1..2 byte word over {a,b,A}), a config-backend snippet that has a line whose first
// word is a listed keyword, or any snippet when "*" is listed, never reaches backend.CustomConfig.
func VerifC19_Snippet() {
	maxLen := nd.Param("MAXLEN", 5)
	n := nd.Choice("len", maxLen+1)
	// ALPHABET=1: line-structure letters only (CR, LF, a, b), which lets longer snippets in
	alphabet := zzSnippetAlphabet
	if nd.Param("ALPHABET", 0) == 1 {
		alphabet = "\n\rab"
	}
	snippet := nd.String("snip", n, alphabet)
	k1 := zzKeywordChoices[nd.Choice("k1", len(zzKeywordChoices))]
	k2 := nd.String("k2", 1+nd.Choice("k2len", 2), "abA")
	keywords := []string{k1, k2}
	if nd.Bool("swap") {
		keywords = []string{k2, k1}
	}

	logger := zzLogger{}
	c := NewUpdater(nil, &convtypes.ConverterOptions{DisableKeywords: keywords, Logger: logger}).(*updater)
	mapper := NewMapBuilder(logger, map[string]string{}).NewMapper()
	src := &Source{Namespace: "default", Name: "ing1", Type: convtypes.ResourceIngress}
	mapper.AddAnnotations(src, hatypes.CreatePathLink("/", hatypes.MatchBegin), map[string]string{
		ingtypes.BackConfigBackend: snippet,
	})
	d := &backData{backend: &hatypes.Backend{}, mapper: mapper}
	c.buildBackendCustomConfig(d)

	emitted := len(d.backend.CustomConfig) > 0
	mustDrop := k1 == "*"
	for _, kw := range keywords {
		if kw != "" && kw != "*" && zzHasDisabledFirstWord(snippet, kw) {
			mustDrop = true
		}
	}
	if mustDrop {
		nd.Assert(!emitted, "disabled-keyword-not-emitted")
		nd.Reach("dropped")
	}
	if emitted {
		// emitted verbatim: what reaches the template is the snippet's own lines
		nd.Reach("kept")
	}
	nd.Reach("end")
}
