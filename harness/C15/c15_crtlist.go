package haproxy

// C15 harness (crt-list): the bind certificate list built by WriteFrontendMaps selects, for every
// SNI name, the certificate of the host's own declaration, else the default one.

import (
	"os"
	"strings"

	hatypes "github.com/jcmoraisjr/haproxy-ingress/pkg/haproxy/types"
	"github.com/jcmoraisjr/haproxy-ingress/pkg/haproxy/template"
	nd "github.com/jcmoraisjr/haproxy-ingress/pkg/zzverifnd"
)

// zzWritten collects, per output file, the lines a map/crt-list template would print.
var zzWritten map[string][]string

// zzStubWriteOutput replaces (*template.Config).WriteOutput in the symbolic run: text/template
// is not encodable; map.tmpl prints one `Key[ Value]` line per entry, which is what is recorded.
func zzStubWriteOutput(c *template.Config, data interface{}, output string) error {
	var lines []string
	if items, ok := data.([]*hatypes.HostsMapEntry); ok {
		for _, it := range items {
			l := it.Key
			if it.Value != "" {
				l += " " + it.Value
			}
			lines = append(lines, l)
		}
	}
	zzWritten[output] = lines
	return nil
}

// zzReadLines returns the payload lines of a written map / list file.
func zzReadLines(file string) []string {
	if nd.Symbolic() {
		return zzWritten[file]
	}
	raw, err := os.ReadFile(file)
	if err != nil {
		return nil
	}
	var out []string
	for _, l := range strings.Split(string(raw), "\n") {
		if l == "" || strings.HasPrefix(l, "#") {
			continue
		}
		out = append(out, l)
	}
	return out
}

// zzNewConfig builds a config whose maps go through the real map template natively and through
// the recording stub symbolically.
func zzNewConfig() *config {
	zzWritten = map[string][]string{}
	opt := options{mapsDir: "/maps"}
	if !nd.Symbolic() {
		dir, err := os.MkdirTemp("", "zzverif-maps-")
		if err != nil {
			panic(err)
		}
		opt.mapsDir = dir
		opt.mapsTemplate = template.CreateConfig()
		if err := opt.mapsTemplate.NewTemplate("map.tmpl", "/repo/rootfs/etc/templates/map/map.tmpl", "", 0, 2048); err != nil {
			panic(err)
		}
	}
	return createConfig(opt)
}

func zzCleanup(c *config) {
	if !nd.Symbolic() {
		os.RemoveAll(c.options.mapsDir)
	}
}

// zzSNISelect: HAProxy's crt-list lookup - the first line is the default certificate and its
// `!*` filter keeps it out of SNI matching; a name selects the line whose filter equals it.
func zzSNISelect(lines []string, sni string) (string, int) {
	def := ""
	hits := 0
	sel := ""
	for i, l := range lines {
		f := strings.Fields(l)
		if len(f) < 2 {
			continue
		}
		filter := f[len(f)-1]
		if i == 0 {
			def = f[0]
		}
		if filter == sni {
			hits++
			if sel == "" {
				sel = f[0]
			}
		}
	}
	if sel == "" {
		return def, hits
	}
	return sel, hits
}

var zzC15Hosts = []string{"h1.local", "h2.local", "h3.local"}
var zzC15Files = []string{"", "/tls/default/t1.pem", "/tls/default/t2.pem", "/tls/system/default.pem"}

func VerifC15_CrtList() {
	c := zzNewConfig()
	defer zzCleanup(c)
	def := "/tls/system/default.pem"
	c.frontend.DefaultCrtFile = def
	n := 1 + nd.Choice("hosts", len(zzC15Hosts))
	want := map[string]string{}
	for i := 0; i < n; i++ {
		h := c.hosts.AcquireHost(zzC15Hosts[i])
		b := c.backends.AcquireBackend("default", "app", "8080")
		h.AddPath(b, "/", hatypes.MatchBegin)
		file := zzC15Files[nd.Choice("file", len(zzC15Files))]
		h.TLS.TLSFilename = file
		if file != "" {
			h.TLS.TLSHash = "hash:" + file
		}
		if nd.Bool("alpn") {
			h.TLS.ALPN = "h2"
		}
		if file == "" {
			file = def
		}
		want[zzC15Hosts[i]] = file
	}
	err := c.WriteFrontendMaps()
	nd.Assert(err == nil, "maps-written")
	lines := zzReadLines(c.frontend.CrtListFile)
	nd.Assert(len(lines) >= 1 && lines[0] == def+" !*", "default-certificate-first-and-unmatched")
	for host, file := range want {
		got, hits := zzSNISelect(lines, host)
		nd.Assert(got == file, "sni-selects-the-hosts-own-certificate-or-default")
		nd.Assert(hits <= 1, "host-listed-at-most-once")
	}
	got, hits := zzSNISelect(lines, "unknown.local")
	nd.Assert(got == def && hits == 0, "unknown-name-gets-default")
	nd.Reach("end")
}
