package ingress

import (
	networking "k8s.io/api/networking/v1"

	convtypes "github.com/jcmoraisjr/haproxy-ingress/pkg/converters/types"
	nd "github.com/jcmoraisjr/haproxy-ingress/pkg/zzverifnd"
)

// VerifC15_FirstDeclarationWins: each TLS host gets the certificate of the secret declared by the
// first-created Ingress that declares it; a missing secret gives the default certificate, never
// the one of another declaration; hosts without a tls entry carry no certificate of their own.
func VerifC15_FirstDeclarationWins() {
	w := &zzWorld{secrets: map[string]string{"default/t1": "v1", "default/t2": "v1", "system/default": "v1"}}
	w.svcs, w.eps = zzBaseServices()
	first := nd.Choice("i1.created", 2) // i1 created before (0) or after (1) i2
	i1 := zzIngress("i1", int64(1+2*first), "i1")
	i2 := zzIngress("i2", 2, "i2")
	// the API may return them in any order
	if nd.Bool("listorder") {
		w.ings = []*networking.Ingress{i1, i2}
	} else {
		w.ings = []*networking.Ingress{i2, i1}
	}
	sys := zzNewSystem(w)
	c := sys.converter(&convtypes.ChangedObjects{GlobalConfigMapDataNew: map[string]string{}})
	c.Sync(true)

	ordered := []*networking.Ingress{i1, i2}
	if first == 1 {
		ordered = []*networking.Ingress{i2, i1}
	}
	for _, hostname := range zzHosts {
		want := ""
		declared := false
		for _, ing := range ordered {
			for _, tls := range ing.Spec.TLS {
				for _, h := range tls.Hosts {
					if h == hostname && !declared {
						declared = true
						if _, ok := w.secrets["default/"+tls.SecretName]; ok {
							want = "/tls/default/" + tls.SecretName + ".pem"
						} else {
							want = "/tls/system/default.pem"
						}
					}
				}
			}
		}
		host := sys.hc.Hosts().FindHost(hostname)
		if !declared {
			nd.Assert(host == nil || host.TLS.TLSFilename == "", "no-tls-entry-no-own-certificate")
			continue
		}
		nd.Assert(host != nil, "tls-host-exists")
		nd.Assert(host.TLS.TLSFilename == want, "first-created-declaration-wins-else-default")
		nd.Reach("declared")
	}
	nd.Reach("end")
}
