package services

// C15 / C01 harness: a reference to a Secret is linked to its referrer whatever the read gives.

import (
	"context"
	"errors"

	api "k8s.io/api/core/v1"
	apierrors "k8s.io/apimachinery/pkg/api/errors"
	"k8s.io/apimachinery/pkg/runtime/schema"
	"sigs.k8s.io/controller-runtime/pkg/client"

	"github.com/jcmoraisjr/haproxy-ingress/pkg/controller/config"
	convtypes "github.com/jcmoraisjr/haproxy-ingress/pkg/converters/types"
	nd "github.com/jcmoraisjr/haproxy-ingress/pkg/zzverifnd"
)

type zzC15Client struct {
	client.Client
	state int // 0 missing, 1 read error, 2 present without the keys, 3 present with an `auth` key
}

func (c *zzC15Client) Get(ctx context.Context, key client.ObjectKey, obj client.Object, opts ...client.GetOption) error {
	o, ok := obj.(*api.Secret)
	if !ok {
		return errors.New("unexpected kind")
	}
	switch c.state {
	case 0:
		return apierrors.NewNotFound(schema.GroupResource{Resource: "secrets"}, key.Name)
	case 1:
		return errors.New("timeout")
	}
	o.Namespace, o.Name = key.Namespace, key.Name
	if c.state == 3 {
		o.Data = map[string][]byte{"auth": []byte("u:p")}
	}
	return nil
}

type zzC15Link struct {
	refs []convtypes.TrackingRef
	res  convtypes.ResourceType
	name string
}

type zzC15Tracker struct {
	convtypes.Tracker
	links []zzC15Link
}

func (t *zzC15Tracker) TrackRefName(refs []convtypes.TrackingRef, rtype convtypes.ResourceType, name string) {
	t.links = append(t.links, zzC15Link{refs, rtype, name})
}

// VerifC15_SecretTracking: an Ingress (host, backend) that names a Secret it is allowed to name is
// linked to that Secret by the cache getter even when the Secret is missing, unreadable or
// malformed right now - otherwise creating or fixing the Secret later would not rebuild the host,
// which would stay on the default certificate (or without its CA / userlist) until a full sync.
func VerifC15_SecretTracking() {
	dyn := &convtypes.DynamicConfig{
		CrossNamespaceSecretCA:          nd.Bool("allow.ca"),
		CrossNamespaceSecretCertificate: nd.Bool("allow.crt"),
		CrossNamespaceSecretPasswd:      nd.Bool("allow.passwd"),
	}
	cl := &zzC15Client{state: nd.Choice("secret.state", 4)}
	tr := &zzC15Tracker{}
	cache := createCacheFacade(context.Background(), cl, &config.Config{}, tr, CreateSSLCerts(&config.Config{}), dyn, nil)
	refs := []string{"x", "a/x", "b/x", "secret://x", "secret://b/x"}
	want := []string{"a/x", "a/x", "b/x", "a/x", "b/x"}
	k := nd.Choice("ref", len(refs))
	track := []convtypes.TrackingRef{{Context: convtypes.ResourceIngress, UniqueName: "a/ing"}}
	if nd.Bool("two.referrers") {
		track = append(track, convtypes.TrackingRef{Context: convtypes.ResourceHAHostname, UniqueName: "d1.local"})
	}
	var own bool
	var err error
	switch nd.Choice("getter", 3) {
	case 0:
		own = dyn.CrossNamespaceSecretCertificate
		_, err = cache.GetTLSSecretPath("a", refs[k], track)
	case 1:
		own = dyn.CrossNamespaceSecretCA
		_, _, err = cache.GetCASecretPath("a", refs[k], track)
	case 2:
		own = dyn.CrossNamespaceSecretPasswd
		_, err = cache.GetPasswdSecretContent("a", refs[k], track)
	}
	permitted := own || want[k] == "a/x"
	linked := false
	for _, l := range tr.links {
		nd.Assert(l.res == convtypes.ResourceSecret && l.name == want[k], "link-names-the-referenced-secret")
		nd.Assert(len(l.refs) == len(track), "link-carries-every-referrer")
		for i := range track {
			nd.Assert(l.refs[i] == track[i], "link-carries-every-referrer")
		}
		linked = true
	}
	if permitted {
		nd.Assert(linked, "permitted-reference-is-tracked-whatever-the-read-returns")
		if cl.state < 3 {
			nd.Assert(err != nil, "unusable-secret-is-an-error")
			nd.Reach("tracked-although-unusable")
		}
	} else {
		nd.Assert(!linked && err != nil, "forbidden-reference-is-not-tracked")
	}
	nd.Reach("end")
}
