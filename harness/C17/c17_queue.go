package haproxy

// C17 harness (queue): the acme work queue follows the storages' add/del sets.

import (
	"time"

	"github.com/jcmoraisjr/haproxy-ingress/pkg/acme"
	"github.com/jcmoraisjr/haproxy-ingress/pkg/types"
	"github.com/jcmoraisjr/haproxy-ingress/pkg/utils"
	nd "github.com/jcmoraisjr/haproxy-ingress/pkg/zzverifnd"
)

type zzAcmeLogger struct{}

func (zzAcmeLogger) InfoV(v int, msg string, args ...interface{}) {}
func (zzAcmeLogger) Info(msg string, args ...interface{})         {}
func (zzAcmeLogger) Warn(msg string, args ...interface{})         {}
func (zzAcmeLogger) Error(msg string, args ...interface{})        {}
func (zzAcmeLogger) Fatal(msg string, args ...interface{})        {}

type zzAcmeQueue struct {
	utils.QueueFacade
	added, removed []string
}

func (q *zzAcmeQueue) Add(item interface{})    { q.added = append(q.added, item.(string)) }
func (q *zzAcmeQueue) Remove(item interface{}) { q.removed = append(q.removed, item.(string)) }

type zzLeader struct {
	types.LeaderElector
	leader bool
}

func (l *zzLeader) IsLeader() bool     { return l.leader }
func (l *zzLeader) LeaderName() string { return "other" }

type zzSigner struct {
	acme.Signer
	account bool
}

func (s *zzSigner) AcmeAccount(endpoint, emails string, termsAgreed bool) {}
func (s *zzSigner) AcmeConfig(expiring time.Duration)                      {}
func (s *zzSigner) HasAccount() bool                                       { return s.account }

var zzAcmeNames = []string{"default/tls1", "default/tls2", "other/tls1"}
var zzAcmeDomains = []string{"d1.local", "d2.local"}

func zzRender(name string, d1, d2 bool) string {
	s := name + ","
	if d1 {
		s += "," + zzAcmeDomains[0]
	}
	if d2 {
		s += "," + zzAcmeDomains[1]
	}
	if !d1 && !d2 {
		s += ","
	}
	return s
}

func zzCount(l []string, s string) int {
	n := 0
	for _, x := range l {
		if x == s {
			n++
		}
	}
	return n
}

// VerifC17_Queue: from a committed set of acme storages, CYCLES incremental syncs follow; each
// removes the dirty storages and re-creates those that still exist with their new domain sets;
// AcmeUpdate then enqueues exactly the entries that are new or changed and removes exactly those
// gone or changed; the update cycle ends with the configuration's Commit, as HAProxyUpdate does.
func VerifC17_Queue() {
	q := &zzAcmeQueue{}
	le := &zzLeader{leader: nd.Param("LEADER", 0) == 1 || nd.Bool("leader")}
	sg := &zzSigner{account: nd.Param("LEADER", 0) == 1 || nd.Bool("account")}
	inst := CreateInstance(zzAcmeLogger{}, InstanceOptions{AcmeQueue: q, LeaderElector: le, AcmeSigner: sg}).(*instance)
	st := inst.Config().AcmeData().Storages()
	n := nd.Param("STORAGES", 3)
	cycles := nd.Param("CYCLES", 1)
	type dom struct{ on, d1, d2 bool }
	domains := func(d dom) []string {
		var ds []string
		if d.d1 {
			ds = append(ds, zzAcmeDomains[0])
		}
		if d.d2 {
			ds = append(ds, zzAcmeDomains[1])
		}
		return ds
	}
	s0 := make([]dom, n)
	for k := 0; k < n; k++ {
		s0[k] = dom{nd.Bool("s0.on"), nd.Bool("s0.d1"), nd.Bool("s0.d2")}
		if s0[k].on {
			st.Acquire(zzAcmeNames[k]).AddDomains(domains(s0[k]))
		}
	}
	inst.Config().Commit()

	for c := 0; c < cycles; c++ {
		q.added, q.removed = nil, nil
		s1 := make([]dom, n)
		var dirty []string
		isDirty := make([]bool, n)
		for k := 0; k < n; k++ {
			s1[k] = dom{nd.Bool("s1.on"), nd.Bool("s1.d1"), nd.Bool("s1.d2")}
			changed := s0[k].on != s1[k].on || (s1[k].on && (s0[k].d1 != s1[k].d1 || s0[k].d2 != s1[k].d2))
			isDirty[k] = changed || nd.Bool("dirty")
			if isDirty[k] {
				dirty = append(dirty, zzAcmeNames[k])
			} else {
				s1[k] = s0[k]
			}
		}
		st.RemoveAll(dirty)
		for k := 0; k < n; k++ {
			if isDirty[k] && s1[k].on {
				st.Acquire(zzAcmeNames[k]).AddDomains(domains(s1[k]))
			}
		}
		inst.AcmeUpdate()

		if !le.leader || !sg.account {
			nd.Assert(len(q.added) == 0 && len(q.removed) == 0, "non-leader-or-no-account-enqueues-nothing")
			nd.Reach("idle")
			return
		}
		total := 0
		for k := 0; k < n; k++ {
			old := zzRender(zzAcmeNames[k], s0[k].d1, s0[k].d2)
			cur := zzRender(zzAcmeNames[k], s1[k].d1, s1[k].d2)
			wantAdd, wantDel := 0, 0
			if s1[k].on && (!s0[k].on || old != cur) {
				wantAdd = 1
				total++
			}
			if s0[k].on && (!s1[k].on || old != cur) {
				wantDel = 1
			}
			if s1[k].on {
				nd.Assert(zzCount(q.added, cur) == wantAdd, "enqueued-iff-new-or-changed")
			}
			if s0[k].on {
				nd.Assert(zzCount(q.removed, old) == wantDel, "removed-iff-gone-or-changed")
			}
		}
		nd.Assert(len(q.added) == total, "nothing-else-enqueued")
		inst.Config().Commit()
		copy(s0, s1)
	}
	nd.Reach("end")
}
