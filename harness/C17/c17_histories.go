package ingress

// C17 harness, converter level: the acme storages the queue is fed from follow the ingresses
// through incremental syncs.

import (
	"strings"

	networking "k8s.io/api/networking/v1"

	convtypes "github.com/jcmoraisjr/haproxy-ingress/pkg/converters/types"
	"github.com/jcmoraisjr/haproxy-ingress/pkg/haproxy"
	nd "github.com/jcmoraisjr/haproxy-ingress/pkg/zzverifnd"
)

// zzAcmeIngress: an Ingress with an optional cert-signer annotation, an optional rule on its
// own host/service choice, and a tls block (host, secret t1/t2).
func zzAcmeIngress(name string, created int64, prefix string) *networking.Ingress {
	ing := zzIngress(name, created, "none")
	if nd.Bool(prefix + ".acme") {
		ing.Annotations = map[string]string{"ingress.kubernetes.io/cert-signer": "acme"}
	}
	if nd.Bool(prefix + ".rule") {
		hi := nd.Choice(prefix+".host", len(zzHosts))
		host, svc := zzHosts[hi], zzSvcs[hi]
		if nd.Param("FREESVC", 0) == 1 {
			svc = zzSvcs[nd.Choice(prefix+".svc", len(zzSvcs))]
		}
		ing.Spec.Rules = []networking.IngressRule{{Host: host}}
		ing.Spec.Rules[0].HTTP = &networking.HTTPIngressRuleValue{Paths: []networking.HTTPIngressPath{{
			Path: "/",
			Backend: networking.IngressBackend{Service: &networking.IngressServiceBackend{
				Name: svc, Port: networking.ServiceBackendPort{Number: zzSvcPort(svc)},
			}},
		}}}
	}
	ing.Spec.TLS = []networking.IngressTLS{{
		Hosts:      []string{zzHosts[nd.Choice(prefix+".tlshost", len(zzHosts))]},
		SecretName: []string{"t1", "t2"}[nd.Choice(prefix+".secret", 2)],
	}}
	return ing
}

func zzStorages(hc haproxy.Config) map[string]string {
	d := map[string]string{}
	for _, st := range hc.AcmeData().Storages().BuildAcmeStorages() {
		d[st[:strings.Index(st, ",")]] = st
	}
	return d
}

func zzHasString(l []string, s string) bool {
	for _, x := range l {
		if x == s {
			return true
		}
	}
	return false
}

// VerifC17_AcmeHistories: i1 and optionally i2 synced in full and committed; then i2 is added,
// updated or deleted (or i1 updated) through the incremental path. What the leader is about to
// enqueue (BuildAcmeStoragesAdd) is exactly the storages whose domain set appeared or changed
// compared with the committed state, what it removes (BuildAcmeStoragesDel) exactly the previous
// value of those that changed or disappeared; the final storages equal a fresh full sync.
func VerifC17_AcmeHistories() {
	w := zzBaseWorld()
	i1 := zzAcmeIngress("i1", 1, "i1")
	w.ings = []*networking.Ingress{i1}
	hasI2 := nd.Bool("i2.present")
	var i2 *networking.Ingress
	if hasI2 {
		i2 = zzAcmeIngress("i2", 2, "i2")
		w.ings = append(w.ings, i2)
	}
	sys := zzNewSystem(w)
	c0 := sys.converter(&convtypes.ChangedObjects{GlobalConfigMapDataNew: map[string]string{}})
	c0.Sync(true)
	sys.hc.Commit()
	committed := zzStorages(sys.hc)

	changed := &convtypes.ChangedObjects{GlobalConfigMapDataCur: map[string]string{}, Links: convtypes.TrackingLinks{}}
	switch nd.Choice("event", nd.Param("EVENTS", 4)) {
	case 0:
		nd.Assume(!hasI2)
		i2 = zzAcmeIngress("i2", 2, "i2new")
		w.ings = append(w.ings, i2)
		changed.IngressesAdd = []*networking.Ingress{i2}
		changed.Links[convtypes.ResourceIngress] = []string{"default/i2"}
	case 1:
		nd.Assume(hasI2)
		w.ings = w.ings[:1]
		changed.IngressesDel = []*networking.Ingress{i2}
		changed.Links[convtypes.ResourceIngress] = []string{"default/i2"}
	case 2:
		nd.Assume(hasI2)
		i2 = zzAcmeIngress("i2", 2, "i2new")
		w.ings[1] = i2
		changed.IngressesUpd = []*networking.Ingress{i2}
		changed.Links[convtypes.ResourceIngress] = []string{"default/i2"}
	case 3:
		i1 = zzAcmeIngress("i1", 1, "i1new")
		w.ings[0] = i1
		changed.IngressesUpd = []*networking.Ingress{i1}
		changed.Links[convtypes.ResourceIngress] = []string{"default/i1"}
	}
	c1 := sys.converter(changed)
	if c1.NeedFullSync() {
		nd.Reach("fullsync-fallback")
		return
	}
	c1.Sync(false)
	st := sys.hc.AcmeData().Storages()
	adds, dels := st.BuildAcmeStoragesAdd(), st.BuildAcmeStoragesDel()
	now := zzStorages(sys.hc)

	fresh := zzNewSystem(w)
	cf := fresh.converter(&convtypes.ChangedObjects{GlobalConfigMapDataNew: map[string]string{}})
	cf.Sync(true)
	full := zzStorages(fresh.hc)
	for k, v := range full {
		nd.Record("full " + v + " (committed " + committed[k] + ")")
	}
	for _, a := range adds {
		nd.Record("add " + a)
	}
	for _, d := range dels {
		nd.Record("del " + d)
	}
	nd.Assert(zzSameDigest(now, full), "storages-equal-full-sync")
	nadd, ndel := 0, 0
	for name, v := range full {
		if committed[name] != v {
			nadd++
			nd.Assert(zzHasString(adds, v), "new-or-changed-domain-set-is-enqueued")
		}
	}
	for name, v := range committed {
		if full[name] != v {
			ndel++
			nd.Assert(zzHasString(dels, v), "changed-or-vanished-domain-set-is-removed")
		}
	}
	nd.Assert(len(adds) == nadd && len(dels) == ndel, "unchanged-storage-not-requeued")
	if nadd > 0 {
		nd.Reach("enqueued")
	}
	nd.Reach("end")
}
