package acme

// C17 harness (signer): a certificate is requested exactly when needed, stored only when complete.

import (
	"crypto/x509"
	"errors"
	"time"

	"github.com/jcmoraisjr/haproxy-ingress/pkg/types"
	nd "github.com/jcmoraisjr/haproxy-ingress/pkg/zzverifnd"
)

type zzLogger struct{}

func (zzLogger) InfoV(v int, msg string, args ...interface{}) {}
func (zzLogger) Info(msg string, args ...interface{})         {}
func (zzLogger) Warn(msg string, args ...interface{})         {}
func (zzLogger) Error(msg string, args ...interface{})        {}
func (zzLogger) Fatal(msg string, args ...interface{})        {}

type zzMetrics struct {
	types.Metrics
	missing, expiring, outdated int
	success                      []bool
}

func (m *zzMetrics) IncCertSigningMissing(domains string, success bool) {
	m.missing++
	m.success = append(m.success, success)
}
func (m *zzMetrics) IncCertSigningExpiring(domains string, success bool) {
	m.expiring++
	m.success = append(m.success, success)
}
func (m *zzMetrics) IncCertSigningOutdated(domains string, success bool) {
	m.outdated++
	m.success = append(m.success, success)
}

type zzCache struct {
	Cache
	secret   *TLSSecret
	readErr  bool
	stored   int
	storeErr bool
	storedOK bool
}

func (c *zzCache) GetTLSSecretContent(secretName string) (*TLSSecret, error) {
	if c.readErr {
		return nil, errors.New("secret not found")
	}
	return c.secret, nil
}

func (c *zzCache) SetTLSSecretContent(secretName string, pemCrt, pemKey []byte) error {
	c.stored++
	c.storedOK = pemCrt != nil && pemKey != nil
	if c.storeErr {
		return errors.New("cannot store")
	}
	return nil
}

type zzClient struct {
	calls    int
	crt, key []byte
	err      error
	domains  []string
}

func (c *zzClient) Sign(dnsnames []string, preferredChain string) (crt, key []byte, err error) {
	c.calls++
	c.domains = dnsnames
	return c.crt, c.key, c.err
}

var zzExpiring = []time.Duration{0, time.Hour, 30 * 24 * time.Hour}

type zzCertCase struct {
	dnsnames []string
	domains  []string
	covers   bool
}

// fixed shapes for wildcard / case handling; plain names are generated symbolically below
var zzCertCases = []zzCertCase{
	{[]string{"*.local"}, []string{"d1.local", "d2.local"}, true},     // wildcard covering
	{[]string{"*.local"}, []string{"d1.local", "a.b.local"}, false},   // wildcard not covering a sub-sub domain
	{[]string{"*.local"}, []string{"a.b.local", "d1.local"}, false},   // same, uncovered name first
	{[]string{"D1.Local"}, []string{"d1.local"}, true},                // case-insensitive
	{[]string{"d1.local"}, []string{}, true},                          // nothing asked
}

var zzPlainNames = []string{"d1.local", "d2.local", "d3.local"}

// zzPlainCase: the certificate holds a solver-chosen subset of three names, the storage asks for a
// solver-chosen non-empty sequence of them (any order); it covers iff every asked name is held.
func zzPlainCase() zzCertCase {
	var c zzCertCase
	held := make([]bool, len(zzPlainNames))
	for i, n := range zzPlainNames {
		held[i] = nd.Bool("cert.has")
		if held[i] {
			c.dnsnames = append(c.dnsnames, n)
		}
	}
	c.covers = true
	n := 1 + nd.Choice("domains", 3)
	used := make([]bool, len(zzPlainNames))
	for i := 0; i < n; i++ {
		k := nd.Choice("domain", len(zzPlainNames))
		nd.Assume(!used[k])
		used[k] = true
		c.domains = append(c.domains, zzPlainNames[k])
		if !held[k] {
			c.covers = false
		}
	}
	return c
}

// VerifC17_Signer: Sign is called iff the secret is unreadable, the certificate expires inside the
// window, or it does not cover every domain; the secret is written only with both crt and key.
func VerifC17_Signer() {
	expiring := zzExpiring[nd.Choice("expiring", len(zzExpiring))]
	var cc zzCertCase
	if k := nd.Choice("cert", len(zzCertCases)+1); k < len(zzCertCases) {
		cc = zzCertCases[k]
	} else {
		cc = zzPlainCase()
	}
	now := time.Now()
	// NotAfter = now + delta seconds (whole seconds, as x509 dates are)
	delta := nd.Int("delta", 0, 200000000) - 100000000
	notAfter := time.Unix(now.Unix()+int64(delta), 0)
	cache := &zzCache{
		secret:   &TLSSecret{Crt: &x509.Certificate{NotAfter: notAfter, DNSNames: cc.dnsnames}},
		readErr:  nd.Bool("secret.unreadable"),
		storeErr: nd.Bool("store.fails"),
	}
	cl := &zzClient{}
	if nd.Bool("sign.crt") {
		cl.crt = []byte("crt")
	}
	if nd.Bool("sign.key") {
		cl.key = []byte("key")
	}
	if nd.Bool("sign.err") {
		cl.err = errors.New("acme error")
	}
	metrics := &zzMetrics{}
	s := NewSigner(zzLogger{}, cache, metrics).(*signer)
	s.AcmeConfig(expiring)
	s.client = cl
	item := "default/tls1,chain"
	for _, d := range cc.domains {
		item += "," + d
	}
	if len(cc.domains) == 0 {
		item += ","
	}
	expSec := int(expiring / time.Second)
	// at exact equality with the window the outcome depends on the sub-second part of the clock
	// and the property accepts either answer; the boundary instant itself is not explored
	nd.Assume(delta != expSec)
	err := s.Notify(item)
	mustSign := cache.readErr || delta < expSec || !cc.covers
	mustNotSign := !cache.readErr && delta > expSec && cc.covers
	if len(cc.domains) == 0 {
		// "a,b," carries one empty domain: no certificate covers it (x509 refuses empty names)
		mustSign, mustNotSign = true, false
	}
	if mustSign {
		nd.Assert(cl.calls == 1, "needed-certificate-is-requested")
		nd.Reach("signed")
	}
	if mustNotSign {
		nd.Assert(cl.calls == 0, "valid-covering-certificate-not-requested")
		nd.Assert(err == nil && cache.stored == 0, "nothing-written-when-valid")
		nd.Reach("skipped")
	}
	if cache.stored > 0 {
		nd.Assert(cache.storedOK && cl.crt != nil && cl.key != nil, "stored-only-with-crt-and-key")
		nd.Assert(cache.stored == 1 && cl.calls == 1, "stored-once-after-signing")
		nd.Reach("stored")
	}
	if cl.calls == 1 {
		nd.Assert(len(metrics.success) == 1, "one-metric-per-request")
		nd.Assert(metrics.success[0] == (err == nil), "metric-reports-outcome")
		if cl.crt == nil || cl.key == nil {
			nd.Assert(cache.stored == 0, "incomplete-result-not-stored")
		}
	}
	nd.Reach("end")
}
