package acme

// C17 harness: an acme account whose creation failed is tried again, so that certificates get
// requested once the fault is gone.

import (
	"crypto"
	"errors"

	nd "github.com/jcmoraisjr/haproxy-ingress/pkg/zzverifnd"
)

type zzKeyCache struct {
	Cache
	calls int
}

// GetKey always fails here (a transient error reading or creating the account key), which makes
// NewClient give up before any network access, symbolically and natively alike.
func (c *zzKeyCache) GetKey() (crypto.Signer, error) {
	c.calls++
	return nil, errors.New("transient error reading the account key")
}

// VerifC17_AccountRetry: the leader calls AcmeAccount on every update. CALLS consecutive calls
// with a symbolic configuration each (same as before, changed, or cleared); the client creation
// fails every time. Every call with a non-empty configuration tries to create the client again -
// a failed attempt never makes the signer believe the account is in place.
func VerifC17_AccountRetry() {
	cache := &zzKeyCache{}
	s := NewSigner(zzLogger{}, cache, &zzMetrics{}).(*signer)
	endpoints := []string{"", "v2", "https://acme.local"}
	emails := []string{"", "admin@local"}
	calls := nd.Param("CALLS", 3)
	for k := 0; k < calls; k++ {
		endpoint := endpoints[nd.Choice("endpoint", len(endpoints))]
		email := emails[nd.Choice("email", len(emails))]
		terms := nd.Bool("terms")
		before := cache.calls
		s.AcmeAccount(endpoint, email, terms)
		nd.Assert(!s.HasAccount(), "no-account-without-a-client")
		if endpoint == "" && email == "" && !terms {
			nd.Assert(cache.calls == before, "cleared-configuration-creates-nothing")
		} else {
			nd.Assert(cache.calls == before+1, "failed-account-creation-is-retried")
			nd.Reach("retried")
		}
	}
	nd.Reach("end")
}
