package haproxy

// C11 harness, instance level: every reload - whatever caused it - leaves each dynamic-scaling
// backend with its free slots replenished, so that the next in-capacity change stays dynamic.

import (
	"strconv"

	hatypes "github.com/jcmoraisjr/haproxy-ingress/pkg/haproxy/types"
	"github.com/jcmoraisjr/haproxy-ingress/pkg/utils"
	nd "github.com/jcmoraisjr/haproxy-ingress/pkg/zzverifnd"
)

// VerifC11_ReloadReplenishes: one dynamic-scaling backend d1 (slots-min-free 1..2, increment
// 1..2) behind host d1.local; STEPS updates, each one of: d1 re-read with 0..3 endpoints (applied
// through the socket when it fits), the host re-read with another attribute (a reload that no
// backend change causes), a new backend (reload). HAProxy accepts every runtime command. After
// every update that asked for a reload, d1 has at least min-free empty slots and a slot count
// that is a multiple of the increment.
func VerifC11_ReloadReplenishes() {
	e := zzC12SetupWith(InstanceOptions{})
	defer e.cleanup()
	e.inst.conns.dynUpdate = &zzC05OKSock{}
	minFree := 1 + nd.Choice("minfree", 2)
	block := 1 + nd.Choice("block", 2)
	ips := []string{"10.0.0.1", "10.0.0.2", "10.0.0.3"}
	n, redirect, extra := 1, "", 0
	build := func() {
		b := e.inst.config.Backends().AcquireBackend("d1", "app", "8080")
		b.Dynamic = hatypes.DynBackendConfig{DynUpdate: true, MinFreeSlots: minFree, BlockSize: block}
		for i := 0; i < n; i++ {
			b.AcquireEndpoint(ips[i], 8080, "")
		}
		h := e.inst.config.Hosts().AcquireHost("d1.local")
		h.RootRedirect = redirect
		h.AddPath(b, "/", hatypes.MatchBegin)
	}
	check := func(when string) {
		b := e.inst.config.Backends().FindBackend("d1", "app", "8080")
		free := 0
		for _, ep := range b.Endpoints {
			if ep.IsEmpty() {
				free++
			}
		}
		nd.Record(when + ": " + strconv.Itoa(len(b.Endpoints)) + " slots, " + strconv.Itoa(free) + " free")
		nd.Assert(free >= minFree, "reload-leaves-min-free-slots")
		nd.Assert(len(b.Endpoints)%block == 0, "slot-count-multiple-of-increment")
	}
	build()
	nd.Assert(e.inst.HAProxyUpdate(utils.NewTimer(nil)) == nil, "first-update-succeeds")
	check("first load")
	steps := nd.Param("STEPS", 3)
	for s := 0; s < steps; s++ {
		before := e.reload.requests
		switch nd.Choice("step", 3) {
		case 0: // endpoints of d1 re-read
			n = nd.Choice("endpoints", 4)
			e.inst.config.Backends().RemoveAll([]string{"d1_app_8080"})
			e.inst.config.Hosts().RemoveAll([]string{"d1.local"})
			build()
		case 1: // the host changes, the backend is re-read unchanged
			redirect = "/v" + strconv.Itoa(s)
			e.inst.config.Backends().RemoveAll([]string{"d1_app_8080"})
			e.inst.config.Hosts().RemoveAll([]string{"d1.local"})
			build()
		case 2: // another application shows up
			extra++
			e.addApp("x"+strconv.Itoa(extra), "10.0.1."+strconv.Itoa(extra))
		}
		nd.Assert(e.inst.HAProxyUpdate(utils.NewTimer(nil)) == nil, "update-succeeds")
		if e.reload.requests > before {
			check("after a reload")
			nd.Reach("reloaded")
		} else {
			nd.Reach("dynamic")
		}
	}
	nd.Reach("end")
}
