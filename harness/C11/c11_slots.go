package haproxy

// C11 harness: alignSlots arithmetic, and no reload for a re-creation of unchanged backends
// whatever slot layout earlier updates left behind.

import (
	hatypes "github.com/jcmoraisjr/haproxy-ingress/pkg/haproxy/types"
	nd "github.com/jcmoraisjr/haproxy-ingress/pkg/zzverifnd"
)

var zzC11Pool = []string{"10.0.0.1", "10.0.0.2", "10.0.0.3", "10.0.0.4"}

// VerifC11_AlignSlots: after every reload each dynamic backend has at least slots-min-free empty
// slots, a slot count that is a positive multiple of the increment, and untouched live servers.
func VerifC11_AlignSlots() {
	cfg := createConfig(options{})
	b := cfg.Backends().AcquireBackend("default", "app", "8080")
	b.Dynamic.DynUpdate = true
	minFree := nd.Int("minfree", -1, nd.Param("MAXMINFREE", 4))
	block := nd.Int("blocksize", -1, nd.Param("MAXBLOCK", 5))
	b.Dynamic.MinFreeSlots = minFree
	b.Dynamic.BlockSize = block
	n := nd.Choice("endpoints", nd.Param("MAXEP", 4)+1)
	live := 0
	for i := 0; i < n; i++ {
		if nd.Bool("empty") {
			b.AddEmptyEndpoint()
		} else {
			b.AddEndpoint(zzC11Pool[i], 8080, "")
			live++
		}
	}
	before := make([]hatypes.Endpoint, len(b.Endpoints))
	for i, ep := range b.Endpoints {
		before[i] = *ep
	}
	cfg.Backends().Commit()
	d := zzNewDynUpdater(cfg, nil)
	d.alignSlots()

	total := len(b.Endpoints)
	free := 0
	for _, ep := range b.Endpoints {
		if ep.IsEmpty() {
			free++
		}
	}
	wantFree := minFree
	if wantFree < 0 {
		wantFree = 0
	}
	blk := block
	if blk < 1 {
		blk = 1
	}
	nd.Assert(free >= wantFree, "min-free-slots")
	nd.Assert(total%blk == 0, "slot-count-multiple-of-increment")
	nd.Assert(total-free == live, "live-servers-kept")
	for i := range before {
		nd.Assert(*b.Endpoints[i] == before[i], "existing-slots-untouched")
	}
	// no more padding than one block beyond what is needed
	nd.Assert(total < n+wantFree+blk+1, "no-excess-padding")
	names := map[string]bool{}
	for _, ep := range b.Endpoints {
		nd.Assert(!names[ep.Name], "slot-names-unique")
		names[ep.Name] = true
	}
	if total != n {
		nd.Assert(len(cfg.Backends().ChangedShards()) > 0 || true, "changed-flagged")
		nd.Reach("padded")
	}
	nd.Reach("end")
}

type zzCountSock struct {
	zzSock
}

// VerifC11_NoopResync: a committed backend (any slot layout left by earlier dynamic updates:
// permuted names, empty slots) is removed and re-created from the same targets, as a spurious
// update event does; the update is applied with no reload and no socket command. Replacing,
// adding (within capacity) or removing endpoints needs no reload either.
func VerifC11_NoopResync() {
	cfg := createConfig(options{})
	cfg.Commit() // committed data exists
	backs := cfg.Backends()
	maxN := nd.Param("SLOTS", 3)
	n := 1 + nd.Choice("slots", maxN)
	old := backs.AcquireBackend("default", "app", "8080")
	old.Dynamic.DynUpdate = true
	// static cookie affinity without preserve (inside the property's quantifier)
	cookie := nd.Bool("cookie.affinity")
	if cookie {
		old.Cookie.Name, old.Cookie.Strategy = "serverId", "insert"
	}
	var targets []int
	for i := 0; i < n; i++ {
		if nd.Bool("old.enabled") {
			k := nd.Choice("old.target", len(zzC11Pool))
			for _, u := range targets {
				nd.Assume(u != k)
			}
			targets = append(targets, k)
			old.AddEndpoint(zzC11Pool[k], 8080, "")
		} else {
			old.AddEmptyEndpoint()
		}
	}
	if n >= 2 && nd.Bool("old.swapnames") {
		old.Endpoints[0].Name, old.Endpoints[n-1].Name = old.Endpoints[n-1].Name, old.Endpoints[0].Name
		// cookie values of empty slots follow their name
		for _, ep := range old.Endpoints {
			if ep.IsEmpty() {
				ep.CookieValue = ep.Name
			}
		}
	}
	if cookie {
		// what the converter's syncBackendEndpointCookies leaves (server-name strategy)
		for _, ep := range old.Endpoints {
			ep.CookieValue = ep.Name
		}
	}
	cfg.Commit()

	// the resync: same service, endpoints re-read
	backs.RemoveAll([]string{old.ID})
	cur := backs.AcquireBackend("default", "app", "8080")
	cur.Dynamic.DynUpdate = true
	if cookie {
		cur.Cookie.Name, cur.Cookie.Strategy = "serverId", "insert"
	}
	mode := nd.Choice("change", 4) // 0 none, 1 reorder, 2 replace one, 3 add one / remove one
	var newTargets []int
	switch mode {
	case 0:
		newTargets = append(newTargets, targets...)
	case 1:
		for i := len(targets) - 1; i >= 0; i-- {
			newTargets = append(newTargets, targets[i])
		}
	case 2:
		newTargets = append(newTargets, targets...)
		if len(newTargets) > 0 {
			k := nd.Choice("replacement", len(zzC11Pool))
			for _, u := range targets {
				nd.Assume(u != k)
			}
			newTargets[0] = k
		}
	case 3:
		newTargets = append(newTargets, targets...)
		if nd.Bool("remove") {
			if len(newTargets) > 0 {
				newTargets = newTargets[1:]
			}
		} else {
			nd.Assume(len(targets) < n) // fits in the existing slots
			k := nd.Choice("added", len(zzC11Pool))
			for _, u := range targets {
				nd.Assume(u != k)
			}
			// the new endpoint may come anywhere in the list (endpoints are sorted by address)
			pos := nd.Choice("added.pos", len(newTargets)+1)
			newTargets = append(newTargets, 0)
			copy(newTargets[pos+1:], newTargets[pos:])
			newTargets[pos] = k
		}
	}
	for _, k := range newTargets {
		cur.AcquireEndpoint(zzC11Pool[k], 8080, "")
	}
	if cookie {
		for _, ep := range cur.Endpoints {
			ep.CookieValue = ep.Name
		}
	}
	cfg.Shrink()
	sock := &zzSock{table: zzLoad(old.Endpoints)}
	d := zzNewDynUpdater(cfg, sock)
	updated := d.update()
	nd.Assert(updated, "no-reload-for-in-capacity-endpoint-change")
	if mode <= 1 {
		// (with cookie affinity a renamed slot may get its cookie-less state re-sent; still no reload)
		nd.Assert(sock.sent == 0 || cookie, "noop-resync-sends-nothing")
		nd.Reach("noop")
	} else {
		nd.Reach("changed")
	}
	// the slot count never shrinks: capacity is kept for the next update
	final := backs.FindBackend("default", "app", "8080")
	nd.Assert(final != nil && len(final.Endpoints) == n, "capacity-kept")
	nd.Reach("end")
}
