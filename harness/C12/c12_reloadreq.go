package haproxy

// C12 harness: every update that leaves files HAProxy has not loaded asks for a reload, whatever
// happened to earlier validations and reloads.

import (
	"errors"
	"os/exec"

	hatypes "github.com/jcmoraisjr/haproxy-ingress/pkg/haproxy/types"
	"github.com/jcmoraisjr/haproxy-ingress/pkg/utils"
	nd "github.com/jcmoraisjr/haproxy-ingress/pkg/zzverifnd"
)

// symbolic run: `haproxy -c` cannot be executed; the stand-ins make it fail, which is also what
// the native replay sees in this sandbox (no haproxy binary). A passing validation is the
// instance's own test mode (options.fake).
func zzC12ExecCommand(name string, arg ...string) *exec.Cmd { return &exec.Cmd{Path: name} }
func zzC12CombinedOutput(c *exec.Cmd) ([]byte, error) {
	return []byte("[ALERT] config : parsing error"), errors.New("exit status 1")
}

// VerifC12_ReloadRequested: d1 is brought up (reload requested, and the reload worker may or may
// not have run). Then STEPS updates follow, each either an endpoint change that fits the free
// slots (applied through the socket; its validation passes or fails) or a new host (needs a
// reload). Whenever an update returns without error and the change could not be applied
// dynamically, a reload was requested during that update, and the files describe the change.
func VerifC12_ReloadRequested() {
	e := zzC12SetupWith(InstanceOptions{ValidateConfig: true})
	defer e.cleanup()
	e.inst.conns.dynUpdate = &zzC05OKSock{}
	timer := func() *utils.Timer { return utils.NewTimer(nil) }
	b := e.inst.config.Backends().AcquireBackend("d1", "app", "8080")
	b.Dynamic = hatypes.DynBackendConfig{DynUpdate: true, MinFreeSlots: 2, BlockSize: 1}
	b.AcquireEndpoint("10.0.0.1", 8080, "")
	e.inst.config.Hosts().AcquireHost("d1.local").AddPath(b, "/", hatypes.MatchBegin)
	nd.Assert(e.inst.HAProxyUpdate(timer()) == nil, "first-update-succeeds")
	nd.Assert(e.reload.requests == 1, "first-update-asks-for-reload")
	if nd.Bool("worker.ran") {
		nd.Assert(e.inst.Reload(timer()) == nil, "reload-succeeds")
	}
	cfgFile := e.cfgDir + "/haproxy.cfg"
	steps := nd.Param("STEPS", 2)
	hosts := 1
	ip := 1
	for s := 0; s < steps; s++ {
		before := e.reload.requests
		if nd.Bool("new.host") {
			hosts++
			name := "d" + string(rune('0'+hosts))
			e.addApp(name, "10.0.1."+string(rune('0'+hosts)))
			err := e.inst.HAProxyUpdate(timer())
			nd.Assert(err == nil, "fault-free-update-succeeds")
			nd.Assert(e.reload.requests > before, "change-ends-with-a-reload-request")
			nd.Assert(e.fileMentions(cfgFile, "backend "+name+"_app_8080"), "update-writes-the-new-backend")
			nd.Reach("reload-needed")
		} else {
			// the endpoint of d1 is replaced: fits the slots, goes through the socket
			ip++
			e.inst.config.Backends().RemoveAll([]string{"d1_app_8080"})
			e.inst.config.Hosts().RemoveAll([]string{"d1.local"})
			nb := e.inst.config.Backends().AcquireBackend("d1", "app", "8080")
			nb.Dynamic = hatypes.DynBackendConfig{DynUpdate: true, MinFreeSlots: 2, BlockSize: 1}
			nb.AcquireEndpoint("10.0.0."+string(rune('0'+ip)), 8080, "")
			e.inst.config.Hosts().AcquireHost("d1.local").AddPath(nb, "/", hatypes.MatchBegin)
			validationFails := nd.Bool("validation.fails")
			e.inst.options.fake = !validationFails
			err := e.inst.HAProxyUpdate(timer())
			e.inst.options.fake = true
			nd.Assert(err == nil, "dynamic-update-succeeds")
			nd.Reach("dynamic")
		}
		if nd.Bool("worker.ran") && e.reload.requests > 0 {
			nd.Assert(e.inst.Reload(timer()) == nil, "reload-succeeds")
		}
	}
	nd.Reach("end")
}
