package services

// C12 harness, controller side: a failing update is reported to the reconciler (which requeues
// on error) and a failing reload re-adds itself to the reload queue.

import (
	"context"
	"errors"
	"time"

	"github.com/go-logr/logr"
	networking "k8s.io/api/networking/v1"

	"github.com/jcmoraisjr/haproxy-ingress/pkg/controller/config"
	"github.com/jcmoraisjr/haproxy-ingress/pkg/converters/tracker"
	convtypes "github.com/jcmoraisjr/haproxy-ingress/pkg/converters/types"
	"github.com/jcmoraisjr/haproxy-ingress/pkg/haproxy"
	"github.com/jcmoraisjr/haproxy-ingress/pkg/utils"
	nd "github.com/jcmoraisjr/haproxy-ingress/pkg/zzverifnd"
)

type zzC12Logger struct{}

func (zzC12Logger) InfoV(v int, msg string, args ...interface{}) {}
func (zzC12Logger) Info(msg string, args ...interface{})         {}
func (zzC12Logger) Warn(msg string, args ...interface{})         {}
func (zzC12Logger) Error(msg string, args ...interface{})        {}
func (zzC12Logger) Fatal(msg string, args ...interface{})        {}

// zzC12Instance: the real instance for the model, with the update / reload outcome chosen by
// the harness (what makes them fail is the C12 instance-level harness).
type zzC12Instance struct {
	haproxy.Instance
	updateFails, reloadFails bool
	updates, reloads, acme   int
}

func (i *zzC12Instance) HAProxyUpdate(timer *utils.Timer) error {
	i.updates++
	if i.updateFails {
		return errors.New("error writing configuration")
	}
	return nil
}

func (i *zzC12Instance) Reload(timer *utils.Timer) error {
	i.reloads++
	if i.reloadFails {
		return errors.New("error reloading server")
	}
	return nil
}

func (i *zzC12Instance) AcmeUpdate() { i.acme++ }

type zzC12Queue struct {
	utils.QueueFacade
	after []time.Duration
	adds  int
}

func (q *zzC12Queue) Add(item interface{}) { q.adds++ }
func (q *zzC12Queue) AddAfter(item interface{}, d time.Duration) {
	q.after = append(q.after, d)
}

type zzC12Cache struct{ convtypes.Cache }

func (zzC12Cache) GetTLSSecretPath(defaultNamespace, secretName string, track []convtypes.TrackingRef) (convtypes.CrtFile, error) {
	return convtypes.CrtFile{Filename: "/ssl/default.pem", SHA1Hash: "1"}, nil
}
func (zzC12Cache) GetIngressList() ([]*networking.Ingress, error) { return nil, nil }

// zzC12NoProcTime stands in for (*metrics).ControllerProcTime in the symbolic run (prometheus
// counters are outside the engine); the native replay uses the real metrics object.
func zzC12NoProcTime(m *metrics, task string, duration time.Duration) {}

// VerifC12_ServiceRetry: (a) ReconcileIngress hands the error of a failed HAProxyUpdate back to
// its caller - IngressReconciler.Reconcile turns any error into RequeueAfter(ReloadRetry) - and
// reports success otherwise; (b) the reload worker re-adds itself after ReloadRetry when the
// reload fails, and only then.
func VerifC12_ServiceRetry() {
	real := haproxy.CreateInstance(zzC12Logger{}, haproxy.InstanceOptions{})
	hc := real.Config()
	hc.Frontend().DefaultCrtFile, hc.Frontend().DefaultCrtHash = "/ssl/default.pem", "1"
	hc.Commit()
	inst := &zzC12Instance{Instance: real, updateFails: nd.Bool("update.fails"), reloadFails: nd.Bool("reload.fails")}
	q := &zzC12Queue{}
	retry := []time.Duration{time.Second, 30 * time.Second}[nd.Choice("retry", 2)]
	s := &Services{
		Config:   &config.Config{ReloadRetry: retry},
		log:      logr.Discard(),
		instance: inst,
		converterOpt: &convtypes.ConverterOptions{
			Cache: zzC12Cache{}, Logger: zzC12Logger{}, Tracker: tracker.NewTracker(),
			DynamicConfig: &convtypes.DynamicConfig{}, DefaultConfig: func() map[string]string { return map[string]string{} },
			DefaultCrtSecret: "system/default", AnnotationPrefix: []string{"ingress.kubernetes.io"},
		},
		reloadQueue:  q,
		svcleader:    &svcLeader{},
		svcstatusing: &svcStatusIng{},
	}
	if !nd.Symbolic() {
		s.metrics = createMetrics([]float64{1})
	}
	ctx := context.Background()
	// the retry of a failed update carries an empty batch
	err := s.ReconcileIngress(ctx, &convtypes.ChangedObjects{GlobalConfigMapDataCur: map[string]string{}, Links: convtypes.TrackingLinks{}})
	nd.Assert(inst.updates == 1, "update-attempted")
	nd.Assert((err != nil) == inst.updateFails, "failed-update-is-reported-to-the-reconciler")
	nd.Assert(s.modelMutex.TryLock(), "model-lock-released")
	s.modelMutex.Unlock()

	rerr := s.reloadHAProxy(ctx, nil)
	nd.Assert(inst.reloads == 1, "reload-attempted")
	if inst.reloadFails {
		nd.Assert(len(q.after) == 1 && q.after[0] == retry, "failed-reload-retries-after-reload-retry")
		nd.Reach("retry")
	} else {
		nd.Assert(len(q.after) == 0 && q.adds == 0, "successful-reload-schedules-nothing")
	}
	// the queue's own failure handling would re-add at once, defeating the retry interval
	nd.Assert(rerr == nil, "reload-worker-handles-its-own-retry")
	nd.Reach("end")
}
