package haproxy

// C12 harness: a change is not lost to a transient failure of an update.

import (
	"errors"
	"os"
	"sort"
	"strings"
	"time"

	hatypes "github.com/jcmoraisjr/haproxy-ingress/pkg/haproxy/types"
	"github.com/jcmoraisjr/haproxy-ingress/pkg/haproxy/socket"
	"github.com/jcmoraisjr/haproxy-ingress/pkg/haproxy/template"
	"github.com/jcmoraisjr/haproxy-ingress/pkg/utils"
	nd "github.com/jcmoraisjr/haproxy-ingress/pkg/zzverifnd"
)

type zzC12Logger struct{}

func (zzC12Logger) InfoV(v int, msg string, args ...interface{}) {}
func (zzC12Logger) Info(msg string, args ...interface{})         {}
func (zzC12Logger) Warn(msg string, args ...interface{})         {}
func (zzC12Logger) Error(msg string, args ...interface{})        {}
func (zzC12Logger) Fatal(msg string, args ...interface{})        {}

type zzC12Metrics struct{}

func (zzC12Metrics) HAProxyShowInfoResponseTime(time.Duration)                  {}
func (zzC12Metrics) HAProxySetServerResponseTime(time.Duration)                 {}
func (zzC12Metrics) HAProxySetSSLCertResponseTime(time.Duration)                {}
func (zzC12Metrics) ControllerProcTime(task string, duration time.Duration)     {}
func (zzC12Metrics) AddIdleFactor(idle int)                                     {}
func (zzC12Metrics) IncUpdateNoop()                                             {}
func (zzC12Metrics) IncUpdateDynamic()                                          {}
func (zzC12Metrics) IncUpdateFull()                                             {}
func (zzC12Metrics) UpdateSuccessful(success bool)                              {}
func (zzC12Metrics) SetCertExpireDate(domain, cn string, notAfter *time.Time)   {}
func (zzC12Metrics) ClearCertExpire()                                           {}
func (zzC12Metrics) IncCertSigningMissing(domains string, success bool)         {}
func (zzC12Metrics) IncCertSigningExpiring(domains string, success bool)        {}
func (zzC12Metrics) IncCertSigningOutdated(domains string, success bool)        {}

type zzC12Reload struct {
	utils.QueueFacade
	requests int
}

func (q *zzC12Reload) Add(item interface{}) { q.requests++ }

// zzC12Sock: no HAProxy is listening; every runtime command fails, so every change needs a reload.
type zzC12Sock struct{ socket.HAProxySocket }

func (zzC12Sock) Send(observer func(time.Duration), command ...string) ([]string, error) {
	return nil, errors.New("connection refused")
}

type zzC12Env struct {
	inst      *instance
	cfgDir    string
	mapsDir   string
	reload    *zzC12Reload
	faultMaps bool
	faultCfg  bool
	written   map[string][]string
	writes    int
	faultFile string // a single file whose write fails (VerifC12_FileFault)
}

var zzEnv *zzC12Env

// zzShardWriter is set by harnesses that look at backend shard files (C05).
var zzShardWriter func(e *zzC12Env, output string)
var zzEnvs []*zzC12Env

// zzC12EnvOf finds the environment a template belongs to (VerifC12_FileFault runs two).
func zzC12EnvOf(c *template.Config) *zzC12Env {
	for _, e := range zzEnvs {
		i := e.inst
		if c == i.mapsTmpl || c == i.haproxyTmpl || c == i.modsecTmpl || c == i.crtlistTmpl || c == i.haResponseTmpl || c == i.luaResponseTmpl {
			return e
		}
	}
	return zzEnv
}

// symbolic run: stand-ins for (*template.Config).WriteOutput / Write. They fail exactly where the
// native run makes the file system fail, and record what the real template would be given.
func zzC12WriteOutput(c *template.Config, data interface{}, output string) error {
	e := zzC12EnvOf(c)
	if c == e.inst.haproxyTmpl && output == "" {
		output = e.cfgDir + "/haproxy.cfg"
	}
	if e.faultFile != "" && output == e.faultFile {
		return errors.New("cannot write " + output)
	}
	switch c {
	case e.inst.mapsTmpl:
		if e.faultMaps {
			return errors.New("cannot write map")
		}
		var lines []string
		if items, ok := data.([]*hatypes.HostsMapEntry); ok {
			for _, it := range items {
				lines = append(lines, it.Key+" "+it.Value)
			}
		}
		e.written[output] = lines
	case e.inst.haproxyTmpl:
		if e.faultCfg {
			return errors.New("cannot write config")
		}
		if zzShardWriter != nil && strings.HasPrefix(zzC12Base(output), "haproxy5-backend") {
			zzShardWriter(e, output)
			e.writes++
			return nil
		}
		// the template renders the backends sorted by name
		var lines, ids []string
		for id := range e.inst.config.Backends().Items() {
			ids = append(ids, id)
		}
		sort.Strings(ids)
		for _, id := range ids {
			lines = append(lines, "backend "+id)
			for _, ep := range e.inst.config.Backends().Items()[id].Endpoints {
				lines = append(lines, "server "+ep.Name+" "+ep.IP)
			}
		}
		e.written[output] = lines
	default:
		// modsecurity, lua and http response templates: content does not depend on hosts/backends
		if e.faultCfg {
			return errors.New("cannot write config")
		}
	}
	e.writes++
	return nil
}

func zzC12Write(c *template.Config, data interface{}) error {
	return zzC12WriteOutput(c, data, "")
}

func zzC12Setup() *zzC12Env { return zzC12SetupWith(InstanceOptions{}) }

func zzC12SetupWith(opts InstanceOptions) *zzC12Env {
	e := &zzC12Env{cfgDir: "/cfg", mapsDir: "/maps", reload: &zzC12Reload{}, written: map[string][]string{}}
	if !nd.Symbolic() {
		var err error
		if e.cfgDir, err = os.MkdirTemp("", "zzverif-cfg-"); err != nil {
			panic(err)
		}
		if e.mapsDir, err = os.MkdirTemp("", "zzverif-maps-"); err != nil {
			panic(err)
		}
		os.MkdirAll(e.cfgDir+"/lua", 0o755)
	}
	opts.HAProxyCfgDir, opts.HAProxyMapsDir, opts.RootFSPrefix = e.cfgDir, e.mapsDir, "/repo/rootfs"
	opts.Metrics, opts.ReloadQueue, opts.SortEndpointsBy = zzC12Metrics{}, e.reload, "endpoint"
	e.inst = CreateInstance(zzC12Logger{}, opts).(*instance)
	e.inst.options.fake = true
	if !nd.Symbolic() {
		if err := e.inst.ParseTemplates(); err != nil {
			panic(err)
		}
	}
	e.inst.conns.dynUpdate = zzC12Sock{}
	e.inst.Config()
	e.inst.config.Global().MatchOrder = hatypes.DefaultMatchOrder
	zzEnv = e
	zzEnvs = append(zzEnvs, e)
	return e
}

func (e *zzC12Env) cleanup() {
	if !nd.Symbolic() {
		os.RemoveAll(e.cfgDir)
		os.RemoveAll(e.cfgDir + ".aside")
		os.RemoveAll(e.mapsDir)
	}
}

// setFaults makes the next update fail at map writing and/or at configuration writing.
func (e *zzC12Env) setFaults(maps, cfg bool) {
	c := e.inst.config.(*config)
	if maps != e.faultMaps {
		e.faultMaps = maps
		if maps {
			c.options.mapsDir = "/nonexistent/zzverif"
		} else {
			c.options.mapsDir = e.mapsDir
		}
	}
	if cfg != e.faultCfg {
		e.faultCfg = cfg
		if !nd.Symbolic() {
			if cfg {
				// a plain file in place of the directory: every write below it fails
				os.Rename(e.cfgDir, e.cfgDir+".aside")
				os.WriteFile(e.cfgDir, []byte("x"), 0o644)
			} else {
				os.Remove(e.cfgDir)
				os.Rename(e.cfgDir+".aside", e.cfgDir)
			}
		}
	}
}

func (e *zzC12Env) fileMentions(file, token string) bool {
	if nd.Symbolic() {
		for _, l := range e.written[file] {
			if strings.Contains(l, token) {
				return true
			}
		}
		return false
	}
	raw, err := os.ReadFile(file)
	return err == nil && strings.Contains(string(raw), token)
}

func (e *zzC12Env) addApp(ns, ip string) {
	b := e.inst.config.Backends().AcquireBackend(ns, "app", "8080")
	b.AcquireEndpoint(ip, 8080, "")
	e.inst.config.Hosts().AcquireHost(ns+".local").AddPath(b, "/", hatypes.MatchBegin)
}

// files lists what HAProxy loads from this environment: every map file plus haproxy.cfg, sorted
// by base name.
func (e *zzC12Env) files() []string {
	var names []string
	if nd.Symbolic() {
		for f := range e.written {
			names = append(names, f)
		}
	} else {
		ents, _ := os.ReadDir(e.mapsDir)
		for _, ent := range ents {
			names = append(names, e.mapsDir+"/"+ent.Name())
		}
		names = append(names, e.cfgDir+"/haproxy.cfg")
		cfgs, _ := os.ReadDir(e.cfgDir)
		for _, ent := range cfgs {
			if strings.HasPrefix(ent.Name(), "haproxy5-backend") {
				names = append(names, e.cfgDir+"/"+ent.Name())
			}
		}
	}
	sort.Slice(names, func(i, j int) bool { return zzC12Base(names[i]) < zzC12Base(names[j]) })
	return names
}

func zzC12Base(f string) string { return f[strings.LastIndex(f, "/")+1:] }

// content is the file as HAProxy would read it, with this environment's directories masked.
func (e *zzC12Env) content(file string) string {
	if nd.Symbolic() {
		return strings.Join(e.written[file], "\n")
	}
	raw, err := os.ReadFile(file)
	if err != nil {
		return "<unreadable>"
	}
	return strings.ReplaceAll(strings.ReplaceAll(string(raw), e.mapsDir, "<maps>"), e.cfgDir, "<cfg>")
}

// setFileFault makes writing one file fail (natively: a directory takes its place, the
// previous content comes back when the fault is lifted).
func (e *zzC12Env) setFileFault(file string, on bool) {
	if nd.Symbolic() {
		if on {
			e.faultFile = file
		} else {
			e.faultFile = ""
		}
		return
	}
	if on {
		os.Rename(file, file+".aside")
		os.Mkdir(file, 0o755)
	} else {
		os.Remove(file)
		os.Rename(file+".aside", file)
	}
}

// pending applies one of the pending changes to the model.
func (e *zzC12Env) pending(change int) {
	switch change {
	case 0:
		e.addApp("d2", "10.0.0.2")
	case 1:
		e.inst.config.Backends().RemoveAll([]string{"d1_app_8080"})
		e.inst.config.Hosts().RemoveAll([]string{"d1.local"})
		e.addApp("d1", "10.0.0.9")
	case 2:
		b := e.inst.config.Backends().AcquireBackend("d3", "app", "8080")
		b.AcquireEndpoint("10.0.0.3", 8080, "")
		e.inst.config.Hosts().RemoveAll([]string{"d1.local"})
		h := e.inst.config.Hosts().AcquireHost("d1.local")
		h.AddPath(e.inst.config.Backends().AcquireBackend("d1", "app", "8080"), "/", hatypes.MatchBegin)
		h.AddPath(b, "/sub", hatypes.MatchBegin)
	case 3: // a second host, https only content as well (tls)
		e.addApp("d2", "10.0.0.2")
		e.inst.config.Hosts().AcquireHost("d2.local").TLS.TLSFilename = "/tls/d2.pem"
		e.inst.config.Hosts().AcquireHost("d2.local").TLS.TLSHash = "1"
	}
}

// VerifC12_FileFault: two identical environments bring up d1, then receive the same pending
// change. In the first one the write of exactly one of the files HAProxy loads (any map file or
// haproxy.cfg) fails during the update. Either that update reports the failure, or it has left
// every file as the fault-free update of the twin did: a failed write is never swallowed.
func VerifC12_FileFault() {
	zzEnvs = nil
	shards := nd.Param("SHARDS", 0)
	if shards > 0 {
		zzShardWriter = zzC05ShardWrite
	}
	a := zzC12SetupWith(InstanceOptions{BackendShards: shards})
	defer a.cleanup()
	b := zzC12SetupWith(InstanceOptions{BackendShards: shards})
	defer b.cleanup()
	for _, e := range []*zzC12Env{a, b} {
		e.addApp("d1", "10.0.0.1")
		nd.Assert(e.inst.HAProxyUpdate(utils.NewTimer(nil)) == nil, "first-update-succeeds")
	}
	files := a.files()
	twin := b.files()
	nd.Assert(len(files) == len(twin) && len(files) >= 2, "twin-environments-write-the-same-files")
	change := nd.Choice("change", 4)
	k := nd.Choice("file", len(files))
	a.pending(change)
	b.pending(change)
	a.setFileFault(files[k], true)
	errA := a.inst.HAProxyUpdate(utils.NewTimer(nil))
	a.setFileFault(files[k], false)
	errB := b.inst.HAProxyUpdate(utils.NewTimer(nil))
	nd.Assert(errB == nil, "fault-free-update-succeeds")
	nd.Record("file=" + zzC12Base(files[k]) + ";")
	if errA == nil {
		for i := range files {
			nd.Assert(zzC12Base(files[i]) == zzC12Base(twin[i]), "twin-environments-write-the-same-files")
			nd.Assert(a.content(files[i]) == b.content(twin[i]), "failed-write-is-reported-or-harmless")
		}
		nd.Reach("unreported")
	} else {
		nd.Reach("reported")
		// the retry: nothing new in the batch, no fault; afterwards every file is what the
		// fault-free twin wrote and a reload was asked for after they were written
		before := a.reload.requests
		if (change == 0 || change == 3) && nd.Bool("retry.reparses.d1") {
			// the retry may be the next event instead of the scheduled one: something
			// unrelated is parsed again without effectively changing
			a.inst.config.Backends().RemoveAll([]string{"d1_app_8080"})
			a.inst.config.Hosts().RemoveAll([]string{"d1.local"})
			a.addApp("d1", "10.0.0.1")
		}
		errR := a.inst.HAProxyUpdate(utils.NewTimer(nil))
		nd.Assert(errR == nil, "retry-succeeds")
		// every file of the twin exists with the same content; a file the twin never wrote (the
		// retry rewrites every shard, also the empty ones) defines nothing
		files2, twin2 := a.files(), b.files()
		for _, f := range files2 {
			var peer string
			for _, t := range twin2 {
				if zzC12Base(t) == zzC12Base(f) {
					peer = t
				}
			}
			if peer != "" {
				nd.Assert(a.content(f) == b.content(peer), "retry-brings-every-file-to-the-current-state")
			} else {
				nd.Assert(!a.fileMentions(f, "backend ") && !a.fileMentions(f, "server "), "file-unknown-to-the-twin-defines-nothing")
			}
		}
		for _, t := range twin2 {
			found := false
			for _, f := range files2 {
				found = found || zzC12Base(t) == zzC12Base(f)
			}
			nd.Assert(found, "retry-leaves-no-file-missing")
		}
		nd.Assert(a.reload.requests > before, "retry-ends-with-a-reload-request")
	}
	nd.Reach("end")
}

// VerifC12_Retry: update 1 brings up d1. Then d2 is added and update 2 runs with a write fault
// (maps, configuration, both or none); update 3 is the fault-free retry with nothing new in the
// batch. The failure must be reported, and after the retry the files HAProxy loads describe d2 and
// a reload was asked for after they were written.
func VerifC12_Retry() {
	e := zzC12Setup()
	defer e.cleanup()
	e.addApp("d1", "10.0.0.1")
	err1 := e.inst.HAProxyUpdate(utils.NewTimer(nil))
	nd.Assert(err1 == nil, "first-update-succeeds")
	httpMap := e.mapsDir + "/_front_http_host__begin.map"
	cfgFile := e.cfgDir + "/haproxy.cfg"
	nd.Assert(e.fileMentions(httpMap, "d1.local") && e.fileMentions(cfgFile, "backend d1_app_8080"), "first-update-writes-d1")
	reloads1 := e.reload.requests
	nd.Assert(reloads1 > 0, "first-update-asks-for-reload")

	// the pending change
	change := nd.Choice("change", 3)
	var mapToken, cfgToken string
	switch change {
	case 0: // a new host and backend
		e.addApp("d2", "10.0.0.2")
		mapToken, cfgToken = "d2.local", "backend d2_app_8080"
	case 1: // the endpoint of d1 is replaced (no HAProxy answers the socket: needs a reload)
		e.inst.config.Backends().RemoveAll([]string{"d1_app_8080"})
		e.inst.config.Hosts().RemoveAll([]string{"d1.local"})
		e.addApp("d1", "10.0.0.9")
		mapToken, cfgToken = "d1.local", "10.0.0.9"
	case 2: // a second path on the existing host goes to a new backend
		b := e.inst.config.Backends().AcquireBackend("d3", "app", "8080")
		b.AcquireEndpoint("10.0.0.3", 8080, "")
		e.inst.config.Hosts().RemoveAll([]string{"d1.local"})
		h := e.inst.config.Hosts().AcquireHost("d1.local")
		h.AddPath(e.inst.config.Backends().AcquireBackend("d1", "app", "8080"), "/", hatypes.MatchBegin)
		h.AddPath(b, "/sub", hatypes.MatchBegin)
		mapToken, cfgToken = "d1.local#/sub", "backend d3_app_8080"
	}
	fault := nd.Choice("fault", 4) // 0 none, 1 maps, 2 config, 3 both
	failures := 1 + nd.Choice("failures", nd.Param("MAXFAILURES", 2))
	reloadsBefore := e.reload.requests
	var err2 error
	for k := 0; k < failures; k++ {
		e.setFaults(fault == 1 || fault == 3, fault == 2 || fault == 3)
		err2 = e.inst.HAProxyUpdate(utils.NewTimer(nil))
		e.setFaults(false, false)
		// the update that carries the change attempts the writes: a failing one must be reported
		// (an endpoint-only change does not rewrite the frontend maps)
		attempted := fault == 2 || fault == 3 || (fault == 1 && change != 1)
		if k == 0 && attempted {
			nd.Assert(err2 != nil, "failure-is-reported")
		}
		if fault == 0 {
			nd.Assert(err2 == nil, "fault-free-update-succeeds")
		}
	}
	// the retry (Reconcile's RequeueAfter or the next event): the converter has nothing to add
	err3 := e.inst.HAProxyUpdate(utils.NewTimer(nil))
	nd.Assert(err3 == nil, "retry-succeeds")
	nd.Record("fault=" + []string{"none", "maps", "config", "maps+config"}[fault] + ";")
	nd.Assert(e.fileMentions(httpMap, mapToken), "retry-writes-the-pending-host-map")
	nd.Assert(e.fileMentions(cfgFile, cfgToken), "retry-writes-the-pending-backend")
	nd.Assert(e.reload.requests > reloadsBefore, "change-ends-with-a-reload-request")
	nd.Reach("end")
}
