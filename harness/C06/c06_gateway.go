package gateway

import (
	"time"

	metav1 "k8s.io/apimachinery/pkg/apis/meta/v1"
	gatewayv1 "sigs.k8s.io/gateway-api/apis/v1"
	gatewayv1alpha2 "sigs.k8s.io/gateway-api/apis/v1alpha2"

	nd "github.com/jcmoraisjr/haproxy-ingress/pkg/zzverifnd"
)

var zzC06Perms = [][]int{{0, 1, 2}, {0, 2, 1}, {1, 0, 2}, {1, 2, 0}, {2, 0, 1}, {2, 1, 0}}

func zzC06Meta(i int, prev []metav1.ObjectMeta) metav1.ObjectMeta {
	m := metav1.ObjectMeta{
		Namespace:         nd.String("ns", 1, "ab"),
		Name:              nd.String("name", 1, "xy"),
		CreationTimestamp: metav1.Time{Time: time.Unix(1600000000+int64(nd.Int("created", 0, 2)), 0)},
	}
	for _, p := range prev {
		nd.Assume(p.Namespace != m.Namespace || p.Name != m.Name)
	}
	return m
}

// VerifC06_SortRoutes: HTTPRoutes and TCPRoutes are processed in creation order, then by name.
func VerifC06_SortRoutes() {
	var metas []metav1.ObjectMeta
	hr := make([]*httpRouteSource, 3)
	tr := make([]*tcpRouteSource, 3)
	for i := 0; i < 3; i++ {
		m := zzC06Meta(i, metas)
		metas = append(metas, m)
		hr[i] = &httpRouteSource{source: source{obj: &gatewayv1.HTTPRoute{ObjectMeta: m}}}
		tr[i] = &tcpRouteSource{source: source{obj: &gatewayv1alpha2.TCPRoute{ObjectMeta: m}}}
	}
	p := zzC06Perms[nd.Choice("perm", 6)]
	h1 := []*httpRouteSource{hr[0], hr[1], hr[2]}
	h2 := []*httpRouteSource{hr[p[0]], hr[p[1]], hr[p[2]]}
	sortHTTPRoutes(h1)
	sortHTTPRoutes(h2)
	t1 := []*tcpRouteSource{tr[0], tr[1], tr[2]}
	t2 := []*tcpRouteSource{tr[p[0]], tr[p[1]], tr[p[2]]}
	sortTCPRoutes(t1)
	sortTCPRoutes(t2)
	for i := 0; i < 3; i++ {
		nd.Assert(h1[i] == h2[i], "httproutes-same-order-whatever-the-list-order")
		nd.Assert(t1[i] == t2[i], "tcproutes-same-order-whatever-the-list-order")
	}
	for i := 0; i+1 < 3; i++ {
		a, b := h1[i].obj, h1[i+1].obj
		ta, tb := a.GetCreationTimestamp().Unix(), b.GetCreationTimestamp().Unix()
		nd.Assert(ta < tb || (ta == tb && a.GetNamespace()+"/"+a.GetName() < b.GetNamespace()+"/"+b.GetName()), "ordered-by-creation-then-name")
	}
	nd.Reach("end")
}
