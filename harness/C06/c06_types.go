package types

import (
	nd "github.com/jcmoraisjr/haproxy-ingress/pkg/zzverifnd"
)

var zzC06Names = []string{"a", "b", "c"}

// The lists the templates iterate are sorted by their unique key whatever the iteration order
// of the maps they are built from (the engine explores every order).

func VerifC06_SortedHosts() {
	hosts := CreateHosts()
	for _, k := range []int{nd.Choice("h0", 3), nd.Choice("h1", 3), nd.Choice("h2", 3)} {
		hosts.AcquireHost(zzC06Names[k] + ".local")
	}
	hs := hosts.BuildSortedItems()
	nd.Assert(len(hs) == len(hosts.Items()), "all-hosts-listed")
	for i := 0; i+1 < len(hs); i++ {
		nd.Assert(hs[i].Hostname < hs[i+1].Hostname, "hosts-strictly-sorted")
	}
	nd.Reach("end")
}

func VerifC06_SortedBackends() {
	shards := nd.Choice("shards", 2)
	backs := CreateBackends(shards)
	for _, k := range []int{nd.Choice("b0", 3), nd.Choice("b1", 3), nd.Choice("b2", 3)} {
		backs.AcquireBackend("ns", zzC06Names[k], "80")
	}
	var bs []*Backend
	if shards == 0 {
		bs = backs.BuildSortedItems()
	} else {
		bs = backs.BuildSortedShard(0)
	}
	nd.Assert(len(bs) == len(backs.Items()), "all-backends-listed")
	for i := 0; i+1 < len(bs); i++ {
		nd.Assert(bs[i].ID < bs[i+1].ID, "backends-strictly-sorted")
	}
	nd.Reach("end")
}

func VerifC06_SortedHostnames() {
	b := &Backend{ID: "x"}
	for _, k := range []int{nd.Choice("p0", 3), nd.Choice("p1", 3), nd.Choice("p2", 3)} {
		b.AddBackendPath(CreateHostPathLink(zzC06Names[k]+".local", "/", MatchBegin))
	}
	hn := b.Hostnames()
	for i := 0; i+1 < len(hn); i++ {
		nd.Assert(hn[i] < hn[i+1], "hostnames-strictly-sorted")
	}
	st := (&AcmeData{}).Storages()
	for _, k := range []int{nd.Choice("s0", 3), nd.Choice("s1", 3)} {
		st.Acquire("ns/" + zzC06Names[k]).AddDomains([]string{zzC06Names[(k+1)%3] + ".local", zzC06Names[k] + ".local"})
	}
	all := st.BuildAcmeStorages()
	nd.Assert(len(all) >= 1 && len(all) <= 2, "storages-listed")
	nd.Reach("end")
}
