package annotations

import (
	ingtypes "github.com/jcmoraisjr/haproxy-ingress/pkg/converters/ingress/types"
	convtypes "github.com/jcmoraisjr/haproxy-ingress/pkg/converters/types"
	hatypes "github.com/jcmoraisjr/haproxy-ingress/pkg/haproxy/types"
	nd "github.com/jcmoraisjr/haproxy-ingress/pkg/zzverifnd"
)

type zzC06Logger struct{}

func (zzC06Logger) InfoV(v int, msg string, args ...interface{}) {}
func (zzC06Logger) Info(msg string, args ...interface{})         {}
func (zzC06Logger) Warn(msg string, args ...interface{})         {}
func (zzC06Logger) Error(msg string, args ...interface{})        {}
func (zzC06Logger) Fatal(msg string, args ...interface{})        {}

// VerifC06_MapperFirstWriter: for one path and key the first writer's value stays; a later
// distinct value is reported as a conflict and changes nothing; an equal value is no conflict.
func VerifC06_MapperFirstWriter() {
	mapper := NewMapBuilder(zzC06Logger{}, map[string]string{}).NewMapper()
	link := hatypes.CreateHostPathLink("d.local", "/", hatypes.MatchBegin)
	key := ingtypes.BackBalanceAlgorithm
	v1 := nd.String("v1", 1, "ab")
	v2 := nd.String("v2", 1, "ab")
	s1 := &Source{Namespace: "ns", Name: "ing1", Type: convtypes.ResourceIngress}
	s2 := &Source{Namespace: "ns", Name: "ing2", Type: convtypes.ResourceIngress}
	c1 := mapper.AddAnnotations(s1, link, map[string]string{key: v1})
	c2 := mapper.AddAnnotations(s2, link, map[string]string{key: v2})
	nd.Assert(len(c1) == 0, "first-writer-never-conflicts")
	nd.Assert((len(c2) == 1) == (v1 != v2), "conflict-iff-values-differ")
	got := mapper.GetConfig(link).Get(key)
	nd.Assert(got.Value == v1 && got.Source == s1, "first-writer-wins")
	nd.Reach("end")
}

// VerifC06_MapperSeveralKeys: two writers, each declaring a symbolic subset of three keys with
// symbolic values, under every iteration order of their annotation maps: for every key the first
// writer that declares it wins; a key only the second writer declares is applied whatever happens
// to its other keys; the conflicts reported are exactly the keys both declare with different values.
func VerifC06_MapperSeveralKeys() {
	mapper := NewMapBuilder(zzC06Logger{}, map[string]string{}).NewMapper()
	link := hatypes.CreateHostPathLink("d.local", "/", hatypes.MatchBegin)
	keys := []string{ingtypes.BackBalanceAlgorithm, ingtypes.BackMaxconnServer, ingtypes.BackProxyBodySize}
	s1 := &Source{Namespace: "ns", Name: "ing1", Type: convtypes.ResourceIngress}
	s2 := &Source{Namespace: "ns", Name: "ing2", Type: convtypes.ResourceIngress}
	a1, a2 := map[string]string{}, map[string]string{}
	for _, k := range keys {
		if nd.Bool("w1.has") {
			a1[k] = nd.String("v1", 1, "ab")
		}
		if nd.Bool("w2.has") {
			a2[k] = nd.String("v2", 1, "ab")
		}
	}
	c1 := mapper.AddAnnotations(s1, link, a1)
	c2 := mapper.AddAnnotations(s2, link, a2)
	nd.Assert(len(c1) == 0, "first-writer-never-conflicts")
	want := 0
	cfg := mapper.GetConfig(link)
	for _, k := range keys {
		v1, has1 := a1[k]
		v2, has2 := a2[k]
		got := cfg.Get(k)
		switch {
		case has1:
			nd.Assert(got.Value == v1 && got.Source == s1, "first-writer-wins")
			if has2 && v2 != v1 {
				want++
				found := false
				for _, c := range c2 {
					found = found || c == k
				}
				nd.Assert(found, "conflict-reported-for-the-key")
			}
		case has2:
			nd.Assert(got.Value == v2 && got.Source == s2, "undisputed-key-of-the-later-writer-applies")
		default:
			nd.Assert(got.Source == nil, "undeclared-key-stays-unset")
		}
	}
	nd.Assert(len(c2) == want, "conflicts-are-exactly-the-disputed-keys")
	nd.Reach("end")
}
