package annotations

import (
	ingtypes "github.com/jcmoraisjr/haproxy-ingress/pkg/converters/ingress/types"
	convtypes "github.com/jcmoraisjr/haproxy-ingress/pkg/converters/types"
	hatypes "github.com/jcmoraisjr/haproxy-ingress/pkg/haproxy/types"
	nd "github.com/jcmoraisjr/haproxy-ingress/pkg/zzverifnd"
)

type zzC06Logger struct{}

func (zzC06Logger) InfoV(v int, msg string, args ...interface{}) {}
func (zzC06Logger) Info(msg string, args ...interface{})         {}
func (zzC06Logger) Warn(msg string, args ...interface{})         {}
func (zzC06Logger) Error(msg string, args ...interface{})        {}
func (zzC06Logger) Fatal(msg string, args ...interface{})        {}

// VerifC06_MapperFirstWriter: for one path and key the first writer's value stays; a later
// distinct value is reported as a conflict and changes nothing; an equal value is no conflict.
func VerifC06_MapperFirstWriter() {
	mapper := NewMapBuilder(zzC06Logger{}, map[string]string{}).NewMapper()
	link := hatypes.CreateHostPathLink("d.local", "/", hatypes.MatchBegin)
	key := ingtypes.BackBalanceAlgorithm
	v1 := nd.String("v1", 1, "ab")
	v2 := nd.String("v2", 1, "ab")
	s1 := &Source{Namespace: "ns", Name: "ing1", Type: convtypes.ResourceIngress}
	s2 := &Source{Namespace: "ns", Name: "ing2", Type: convtypes.ResourceIngress}
	c1 := mapper.AddAnnotations(s1, link, map[string]string{key: v1})
	c2 := mapper.AddAnnotations(s2, link, map[string]string{key: v2})
	nd.Assert(len(c1) == 0, "first-writer-never-conflicts")
	nd.Assert((len(c2) == 1) == (v1 != v2), "conflict-iff-values-differ")
	got := mapper.GetConfig(link).Get(key)
	nd.Assert(got.Value == v1 && got.Source == s1, "first-writer-wins")
	nd.Reach("end")
}
