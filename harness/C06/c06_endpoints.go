package utils

// C06 harness: the endpoints of a Service come out in one canonical order, whatever the order in
// which the API lists its EndpointSlices (or the subsets of its Endpoints object).

import (
	api "k8s.io/api/core/v1"
	discoveryv1 "k8s.io/api/discovery/v1"

	"github.com/jcmoraisjr/haproxy-ingress/pkg/converters/types"
	nd "github.com/jcmoraisjr/haproxy-ingress/pkg/zzverifnd"
)

type zzC06SliceCache struct {
	types.Cache
	slices []*discoveryv1.EndpointSlice
	eps    *api.Endpoints
}

func (c *zzC06SliceCache) GetEndpointSlices(service *api.Service) ([]*discoveryv1.EndpointSlice, error) {
	return c.slices, nil
}

func (c *zzC06SliceCache) GetEndpoints(service *api.Service) (*api.Endpoints, error) {
	return c.eps, nil
}

func zzC06SameEndpoints(a, b []*Endpoint) bool {
	if len(a) != len(b) {
		return false
	}
	for i := range a {
		if a[i].IP != b[i].IP || a[i].Port != b[i].Port || a[i].Target != b[i].Target {
			return false
		}
	}
	return true
}

// VerifC06_EndpointOrder: SLICES slices (or subsets), each with its own port number out of two and
// 0..MAXEP endpoints whose address is any of three IPs (the same IP may sit in several slices, on
// the same or on another port) and whose readiness is symbolic. CreateEndpoints is called with the
// list as given and with the list reversed; ready and notReady must be the same sequences.
func VerifC06_EndpointOrder() {
	nsl := nd.Param("SLICES", 2)
	maxep := nd.Param("MAXEP", 2)
	useSlices := nd.Bool("endpointslices-api")
	ips := []string{"10.0.0.11", "10.0.0.12", "10.0.0.9"}
	ports := []int32{8080, 9090}
	svcPort := &api.ServicePort{Port: 80}
	var slices []*discoveryv1.EndpointSlice
	var subsets []api.EndpointSubset
	for s := 0; s < nsl; s++ {
		pnum := ports[nd.Choice("port", 2)]
		proto := api.ProtocolTCP
		pname := ""
		sl := &discoveryv1.EndpointSlice{Ports: []discoveryv1.EndpointPort{{Name: &pname, Port: &pnum, Protocol: &proto}}}
		ss := api.EndpointSubset{Ports: []api.EndpointPort{{Port: pnum, Protocol: proto}}}
		nep := nd.Choice("endpoints", maxep+1)
		for e := 0; e < nep; e++ {
			ip := ips[nd.Choice("ip", 3)]
			isReady := nd.Bool("ready")
			r := isReady
			sl.Endpoints = append(sl.Endpoints, discoveryv1.Endpoint{Addresses: []string{ip}, Conditions: discoveryv1.EndpointConditions{Ready: &r}})
			if isReady {
				ss.Addresses = append(ss.Addresses, api.EndpointAddress{IP: ip})
			} else {
				ss.NotReadyAddresses = append(ss.NotReadyAddresses, api.EndpointAddress{IP: ip})
			}
		}
		slices = append(slices, sl)
		subsets = append(subsets, ss)
	}
	rslices := make([]*discoveryv1.EndpointSlice, nsl)
	rsubsets := make([]api.EndpointSubset, nsl)
	for i := 0; i < nsl; i++ {
		rslices[nsl-1-i] = slices[i]
		rsubsets[nsl-1-i] = subsets[i]
	}
	c1 := &zzC06SliceCache{slices: slices, eps: &api.Endpoints{Subsets: subsets}}
	c2 := &zzC06SliceCache{slices: rslices, eps: &api.Endpoints{Subsets: rsubsets}}
	r1, n1, err1 := CreateEndpoints(c1, &api.Service{}, svcPort, useSlices)
	r2, n2, err2 := CreateEndpoints(c2, &api.Service{}, svcPort, useSlices)
	nd.Assert(err1 == nil && err2 == nil, "no-error")
	nd.Assert(zzC06SameEndpoints(r1, r2), "ready-endpoints-in-the-same-order-whatever-the-listing-order")
	nd.Assert(zzC06SameEndpoints(n1, n2), "not-ready-endpoints-in-the-same-order-whatever-the-listing-order")
	nd.Reach("end")
}
