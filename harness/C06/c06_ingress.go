package ingress

// C06 harness: the Ingress processing order is a function of (creationTimestamp, namespace/name),
// not of the order the API returned the objects.

import (
	"time"

	networking "k8s.io/api/networking/v1"
	metav1 "k8s.io/apimachinery/pkg/apis/meta/v1"

	nd "github.com/jcmoraisjr/haproxy-ingress/pkg/zzverifnd"
)

var zzPerms = [][]int{{0, 1, 2}, {0, 2, 1}, {1, 0, 2}, {1, 2, 0}, {2, 0, 1}, {2, 1, 0}}

func VerifC06_SortIngress() {
	n := 3
	objs := make([]*networking.Ingress, n)
	secs := make([]int, n)
	for i := 0; i < n; i++ {
		secs[i] = nd.Int("created", 0, 2)
		// as decoded from the API: whole seconds, no monotonic reading, one Location
		ts := metav1.Time{Time: time.Unix(1600000000+int64(secs[i]), 0)}
		objs[i] = &networking.Ingress{ObjectMeta: metav1.ObjectMeta{
			Namespace:         nd.String("ns", 1, "ab"),
			Name:              nd.String("name", 1, "xy"),
			CreationTimestamp: ts,
		}}
		for j := 0; j < i; j++ {
			nd.Assume(objs[j].Namespace != objs[i].Namespace || objs[j].Name != objs[i].Name)
		}
	}
	l1 := []*networking.Ingress{objs[0], objs[1], objs[2]}
	p := zzPerms[nd.Choice("perm", 6)]
	l2 := []*networking.Ingress{objs[p[0]], objs[p[1]], objs[p[2]]}
	sortIngress(l1)
	sortIngress(l2)
	for i := 0; i < n; i++ {
		nd.Assert(l1[i] == l2[i], "same-order-whatever-the-list-order")
	}
	for i := 0; i+1 < n; i++ {
		a, b := l1[i], l1[i+1]
		ta, tb := a.CreationTimestamp.Unix(), b.CreationTimestamp.Unix()
		nd.Assert(ta < tb || (ta == tb && a.Namespace+"/"+a.Name < b.Namespace+"/"+b.Name), "ordered-by-creation-then-name")
	}
	nd.Reach("end")
}
