package types

// C07 harness: allocators and id generators whose uniqueness HAProxy depends on.

import (
	"strings"

	nd "github.com/jcmoraisjr/haproxy-ingress/pkg/zzverifnd"
)

func zzBackID(i int) BackendID {
	return BackendID{Namespace: "ns", Name: string(rune('a' + i)), Port: "80"}
}

// zzAuthInvariant: the representation invariant of the auth-proxy bind list.
func zzAuthInvariant(f *Frontend) bool {
	l := f.AuthProxy.BindList
	for i, b := range l {
		if b.AuthBackendName != "_auth_"+zzItoa(b.LocalPort) || b.SocketID != 10000+b.LocalPort {
			return false
		}
		for j := 0; j < i; j++ {
			if l[j].LocalPort >= b.LocalPort || l[j].Backend == b.Backend || l[j].AuthBackendName == b.AuthBackendName {
				return false
			}
		}
	}
	return true
}

func zzItoa(n int) string {
	if n == 0 {
		return "0"
	}
	s := ""
	for n > 0 {
		s = string(rune('0'+n%10)) + s
		n /= 10
	}
	return s
}

// VerifC07_AuthProxyPorts: one step from any valid bind list (ports possibly left over from an
// earlier, different range): acquiring a name for a backend never hands out a port twice, never
// leaves the range, gives an existing backend its old name, and reports a full range as an error
// without changing the list; removing unused binds keeps the invariant.
func VerifC07_AuthProxyPorts() {
	f := &Frontend{}
	// ranges around the default one and across a digit boundary (port names are strings)
	base := []int{14410, 9998, 98}[nd.Choice("rangebase", 3)]
	start := base + nd.Choice("rangestart", 2)
	size := nd.Choice("rangesize", nd.Param("MAXRANGE", 3)+1)
	f.AuthProxy.RangeStart = start
	f.AuthProxy.RangeEnd = start + size - 1
	// arbitrary valid pre-state: any subset of 5 candidate ports, each bound to a distinct backend
	nb := 0
	for p := base - 1; p <= base+3; p++ {
		if nd.Bool("inuse") {
			f.AuthProxy.BindList = append(f.AuthProxy.BindList, &AuthProxyBind{
				AuthBackendName: "_auth_" + zzItoa(p), Backend: zzBackID(nb), LocalPort: p, SocketID: 10000 + p,
			})
			nb++
		}
	}
	nd.Assume(zzAuthInvariant(f))
	before := len(f.AuthProxy.BindList)

	steps := nd.Param("STEPS", 2)
	for s := 0; s < steps; s++ {
		if nd.Bool("remove") {
			used := map[string]bool{}
			for _, b := range f.AuthProxy.BindList {
				if nd.Bool("stillused") {
					used[b.AuthBackendName] = true
				}
			}
			f.RemoveAuthBackendExcept(used)
			nd.Assert(zzAuthInvariant(f), "invariant-after-remove")
			for _, b := range f.AuthProxy.BindList {
				nd.Assert(used[b.AuthBackendName], "only-used-binds-kept")
			}
			before = len(f.AuthProxy.BindList)
			continue
		}
		who := nd.Choice("backend", 7) // some existing ones, some new ones
		id := zzBackID(who)
		var had *AuthProxyBind
		for _, b := range f.AuthProxy.BindList {
			if b.Backend == id {
				had = b
			}
		}
		name, err := f.AcquireAuthBackendName(id)
		nd.Assert(zzAuthInvariant(f), "invariant-after-acquire")
		if had != nil {
			nd.Assert(err == nil && name == had.AuthBackendName && len(f.AuthProxy.BindList) == before, "existing-backend-keeps-its-name")
		} else if err != nil {
			nd.Assert(name == "" && len(f.AuthProxy.BindList) == before, "full-range-changes-nothing")
			nd.Reach("full")
		} else {
			nd.Assert(len(f.AuthProxy.BindList) == before+1, "one-bind-added")
			var got *AuthProxyBind
			for _, b := range f.AuthProxy.BindList {
				if b.Backend == id {
					got = b
				}
			}
			nd.Assert(got != nil && got.AuthBackendName == name, "bind-recorded")
			nd.Assert(got.LocalPort >= f.AuthProxy.RangeStart && got.LocalPort <= f.AuthProxy.RangeEnd, "port-inside-range")
			nd.Reach("allocated")
		}
		before = len(f.AuthProxy.BindList)
	}
	nd.Reach("end")
}

var zzC07IPs = []string{"10.0.0.1", "10.0.0.2", "127.0.0.1"}
var zzC07Refs = []string{"ns/pod-a", "ns/pod-b", "other/pod-a", ""}

// VerifC07_ServerNames: whatever mix of endpoints and empty slots is added under any naming
// mode, server names inside a backend are unique and non-empty.
func VerifC07_ServerNames() {
	b := &Backend{ID: "ns_app_80"}
	b.EpNaming = EndpointNaming(nd.Choice("naming", 3))
	n := nd.Param("ENDPOINTS", 4)
	for i := 0; i < n; i++ {
		switch nd.Choice("kind", 3) {
		case 0:
			b.AddEmptyEndpoint()
		case 1:
			b.AddEndpoint(zzC07IPs[nd.Choice("ip", 3)], 8080+nd.Choice("port", 2), zzC07Refs[nd.Choice("ref", 4)])
		case 2:
			b.AcquireEndpoint(zzC07IPs[nd.Choice("ip", 3)], 8080, zzC07Refs[nd.Choice("ref", 4)])
		}
	}
	for i, e := range b.Endpoints {
		nd.Assert(e.Name != "" && !strings.ContainsAny(e.Name, " \t\n"), "server-name-usable")
		for j := 0; j < i; j++ {
			nd.Assert(b.Endpoints[j].Name != e.Name, "server-names-unique")
		}
	}
	nd.Reach("end")
}

// VerifC07_PathIDs: path ids of a backend are unique; for every per-path attribute the ACL id
// lists partition exactly the backend's paths: each id appears in exactly one item and is an id
// the backend's path map defines.
func VerifC07_PathIDs() {
	b := &Backend{ID: "ns_app_80"}
	n := 1 + nd.Choice("paths", nd.Param("MAXPATHS", 3))
	hosts := []string{"h1.local", "h2.local"}
	uris := []string{"/", "/a", "/b"}
	for i := 0; i < n; i++ {
		link := CreateHostPathLink(hosts[nd.Choice("host", 2)], uris[nd.Choice("uri", 3)], MatchBegin)
		p := b.AddBackendPath(link)
		// a per-path attribute with symbolic content
		p.SSLRedirect = nd.Bool("sslredirect")
		p.HSTS.Enabled = nd.Bool("hsts")
		p.HSTS.MaxAge = nd.Int("hsts.maxage", 0, 1)
	}
	ids := map[string]bool{}
	for _, p := range b.Paths {
		nd.Assert(p.ID != "" && !ids[p.ID], "path-ids-unique")
		ids[p.ID] = true
	}
	for _, attr := range []string{"SSLRedirect", "HSTS"} {
		cfg := b.PathConfig(attr)
		seen := map[string]int{}
		for i := range cfg.Items() {
			for _, line := range cfg.PathIDs(i) {
				for _, id := range strings.Fields(line) {
					nd.Assert(ids[id], "acl-id-exists-in-backend")
					seen[id]++
				}
			}
		}
		if cfg.NeedACL() {
			for id := range ids {
				nd.Assert(seen[id] == 1, "every-path-in-exactly-one-acl-item")
			}
			nd.Reach("acl")
		}
	}
	nd.Reach("end")
}
