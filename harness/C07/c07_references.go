package ingress

// C07 harness, converter level: after a full sync and after every incremental batch, every
// reference between hosts, backends and userlists resolves.

import (
	"sort"

	networking "k8s.io/api/networking/v1"

	convtypes "github.com/jcmoraisjr/haproxy-ingress/pkg/converters/types"
	"github.com/jcmoraisjr/haproxy-ingress/pkg/haproxy"
	nd "github.com/jcmoraisjr/haproxy-ingress/pkg/zzverifnd"
)

// zzReferencesResolve: what the templates dereference. A host path names a backend section
// (use_backend / map value); a backend path names the host and path it serves (path maps and
// per-path ACL ids); a path with basic auth names a userlist section.
func zzReferencesResolve(hc haproxy.Config) {
	backs := hc.Backends().Items()
	hosts := hc.Hosts().Items()
	var hostNames, backIDs []string
	for name := range hosts {
		hostNames = append(hostNames, name)
	}
	for id := range backs {
		backIDs = append(backIDs, id)
	}
	sort.Strings(hostNames)
	sort.Strings(backIDs)
	for _, name := range hostNames {
		h := hosts[name]
		nd.Assert(h.Hostname == name, "host-indexed-by-its-name")
		for _, p := range h.Paths {
			b, ok := backs[p.Backend.ID]
			nd.Record("host " + name + p.Path() + " -> backend " + p.Backend.ID)
			nd.Assert(ok && b != nil, "host-path-names-an-existing-backend")
			nd.Assert(b.FindBackendPath(p.Link) != nil, "backend-knows-the-path-routed-to-it")
		}
	}
	for _, id := range backIDs {
		b := backs[id]
		nd.Assert(b.ID == id, "backend-indexed-by-its-id")
		seen := map[string]bool{}
		for _, p := range b.Paths {
			nd.Assert(!seen[p.ID], "path-ids-unique-inside-a-backend")
			seen[p.ID] = true
			h, ok := hosts[p.Link.Hostname()]
			nd.Record("backend " + id + " path " + p.Link.Hostname() + p.Path())
			nd.Assert(ok && h != nil, "backend-path-names-an-existing-host")
			hp := h.FindPathWithLink(p.Link)
			nd.Assert(hp != nil && hp.Backend.ID == id, "host-routes-that-path-to-this-backend")
			if p.AuthHTTP.UserlistName != "" {
				nd.Assert(hc.Userlists().Find(p.AuthHTTP.UserlistName) != nil, "named-userlist-exists")
			}
		}
		names := map[string]bool{}
		for _, ep := range b.Endpoints {
			nd.Assert(!names[ep.Name], "server-names-unique-inside-a-backend")
			names[ep.Name] = true
		}
	}
}

// VerifC07_ReferencesResolve: the cluster of VerifC01_Annotated (i1, optionally i2, shared hosts,
// services and basic-auth secrets, real host/backend annotation updater), a full sync and BATCHES
// incremental batches; the references are checked after every step.
func VerifC07_ReferencesResolve() {
	w := zzBaseWorld()
	w.secrets["default/p1"] = "v1"
	w.secrets["default/p2"] = "v1"
	i1 := zzAnnIngress("i1", 1, "i1")
	w.ings = []*networking.Ingress{i1}
	if nd.Bool("i2.present") {
		w.ings = append(w.ings, zzAnnIngress("i2", 2, "i2"))
	}
	sys := zzNewSystem(w)
	c0 := sys.annotatedConverter(&convtypes.ChangedObjects{GlobalConfigMapDataNew: map[string]string{}})
	c0.Sync(true)
	zzReferencesResolve(sys.hc)
	sys.hc.Commit()
	find := func(name string) int {
		for k, ing := range w.ings {
			if ing.Name == name {
				return k
			}
		}
		return -1
	}
	batches := nd.Param("BATCHES", 1)
	for b := 0; b < batches; b++ {
		changed := &convtypes.ChangedObjects{GlobalConfigMapDataCur: map[string]string{}, Links: convtypes.TrackingLinks{}}
		link := func(res convtypes.ResourceType, name string) {
			changed.Links[res] = append(changed.Links[res], name)
		}
		switch nd.Choice("event", 6) {
		case 0:
			n := zzAnnIngress("i2", 2, "i2new")
			if k := find("i2"); k >= 0 {
				w.ings[k] = n
				changed.IngressesUpd = []*networking.Ingress{n}
			} else {
				w.ings = append(w.ings, n)
				changed.IngressesAdd = []*networking.Ingress{n}
			}
			link(convtypes.ResourceIngress, "default/i2")
		case 1:
			k := find("i2")
			nd.Assume(k >= 0)
			changed.IngressesDel = []*networking.Ingress{w.ings[k]}
			w.ings = append(append([]*networking.Ingress{}, w.ings[:k]...), w.ings[k+1:]...)
			link(convtypes.ResourceIngress, "default/i2")
		case 2:
			k := find("i1")
			nd.Assume(k >= 0)
			changed.IngressesDel = []*networking.Ingress{w.ings[k]}
			w.ings = append(append([]*networking.Ingress{}, w.ings[:k]...), w.ings[k+1:]...)
			link(convtypes.ResourceIngress, "default/i1")
		case 3:
			k := find("i1")
			nd.Assume(k >= 0)
			n := zzAnnIngress("i1", 1, "i1new")
			w.ings[k] = n
			changed.IngressesUpd = []*networking.Ingress{n}
			link(convtypes.ResourceIngress, "default/i1")
		case 4: // the password Secret disappears
			delete(w.secrets, "default/p1")
			link(convtypes.ResourceSecret, "default/p1")
		case 5: // a Service disappears
			delete(w.svcs, "default/s1")
			link(convtypes.ResourceService, "default/s1")
		}
		c1 := sys.annotatedConverter(changed)
		if c1.NeedFullSync() {
			nd.Reach("fullsync-fallback")
			return
		}
		c1.Sync(false)
		zzReferencesResolve(sys.hc)
		sys.hc.Commit()
	}
	nd.Reach("end")
}
