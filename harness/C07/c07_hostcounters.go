package types

// C07 harness: the per-collection facts the templates branch on (support backends and the tls
// passthrough listener are emitted when Hosts.HasSSLPassthrough() says so) agree with the hosts
// actually in the model, across partial-sync cycles.

import (
	nd "github.com/jcmoraisjr/haproxy-ingress/pkg/zzverifnd"
)

// VerifC07_HostCounters: HOSTS hosts, each with ssl-passthrough on or off; CYCLES cycles, each
// removing a solver-chosen subset (the dirty hosts), re-creating any of them with a new or the
// same passthrough flag and content version, then Shrink and Commit as an update does. After every
// step HasSSLPassthrough() is true exactly when some host of Items() is a passthrough host -
// `_redirect_https` / `_front__tls` exist exactly when a map can name them.
func VerifC07_HostCounters() {
	n := nd.Param("HOSTS", 2)
	cycles := nd.Param("CYCLES", 2)
	names := []string{"d1.local", "d2.local", "d3.local"}[:n]
	hosts := CreateHosts()
	check := func(when string) {
		want := false
		for _, h := range hosts.Items() {
			if h.SSLPassthrough() {
				want = true
			}
		}
		nd.Record(when)
		nd.Assert(hosts.HasSSLPassthrough() == want, "passthrough-support-sections-iff-a-passthrough-host-exists")
	}
	build := func(name string) {
		h := hosts.AcquireHost(name)
		h.SetSSLPassthrough(nd.Bool("passthrough"))
		h.RootRedirect = []string{"", "/app"}[nd.Choice("version", 2)]
	}
	for _, name := range names {
		if nd.Bool("exists") {
			build(name)
		}
	}
	check("after the first sync")
	hosts.Shrink()
	hosts.Commit()
	for c := 0; c < cycles; c++ {
		var dirty []string
		for _, name := range names {
			if nd.Bool("dirty") {
				dirty = append(dirty, name)
			}
		}
		hosts.RemoveAll(dirty)
		for _, name := range dirty {
			if nd.Bool("still.exists") {
				build(name)
			}
		}
		check("after the partial sync")
		hosts.Shrink()
		check("after shrink")
		hosts.Commit()
	}
	nd.Reach("end")
}
