package haproxy

// C05 harness, instance level: shard files follow the model through HAProxyUpdate, including the
// changes the update itself makes to backends (free slots added by alignSlots at a reload) and
// dynamic updates that rewrite files without reloading.

import (
	"os"
	"strconv"
	"strings"
	"time"

	hatypes "github.com/jcmoraisjr/haproxy-ingress/pkg/haproxy/types"
	"github.com/jcmoraisjr/haproxy-ingress/pkg/haproxy/socket"
	"github.com/jcmoraisjr/haproxy-ingress/pkg/utils"
	nd "github.com/jcmoraisjr/haproxy-ingress/pkg/zzverifnd"
)

// zzC05OKSock: HAProxy accepts every runtime command.
type zzC05OKSock struct {
	socket.HAProxySocket
	sent int
}

func (s *zzC05OKSock) Send(observer func(time.Duration), command ...string) ([]string, error) {
	s.sent += len(command)
	return make([]string, len(command)), nil
}

// zzC05ShardWrite records, in the symbolic run, the server lines the shard template is given
// (natively the real template writes the file).
func zzC05ShardWrite(e *zzC12Env, output string) {
	base := zzC12Base(output)
	if !strings.HasPrefix(base, "haproxy5-backend") {
		return
	}
	j, _ := strconv.Atoi(base[len("haproxy5-backend") : len("haproxy5-backend")+3])
	e.written[output] = zzC05Render(e.inst.config.Backends().BuildSortedShard(j))
}

func zzC05Render(backs []*hatypes.Backend) []string {
	var lines []string
	for _, b := range backs {
		lines = append(lines, "backend "+b.ID)
		for _, ep := range b.Endpoints {
			lines = append(lines, "server "+ep.Name+" "+ep.IP+":"+strconv.Itoa(ep.Port))
		}
	}
	return lines
}

// shardFile reads back a shard file as `backend` / `server` lines.
func (e *zzC12Env) shardFile(j int) []string {
	file := e.cfgDir + "/haproxy5-backend" + []string{"000", "001", "002", "003"}[j] + ".cfg"
	if nd.Symbolic() {
		return e.written[file]
	}
	raw, err := os.ReadFile(file)
	if err != nil {
		return nil
	}
	var lines []string
	for _, l := range strings.Split(string(raw), "\n") {
		f := strings.Fields(l)
		if len(f) >= 2 && f[0] == "backend" {
			lines = append(lines, "backend "+f[1])
		}
		if len(f) >= 3 && f[0] == "server" {
			lines = append(lines, "server "+f[1]+" "+f[2])
		}
	}
	return lines
}

func zzSameLines(a, b []string) bool {
	if len(a) != len(b) {
		return false
	}
	for i := range a {
		if a[i] != b[i] {
			return false
		}
	}
	return true
}

var zzC05Apps = []string{"d1", "d2", "d3"}

// VerifC05_InstanceShards: SHARDS backend shards, up to 3 dynamic-scaling backends with
// slots-min-free 0..2 and increment 1..2; CYCLES updates, each re-creating a solver-chosen subset
// of the backends with 0..3 endpoints (HAProxy accepts every runtime command, so in-capacity
// changes are applied without a reload; out-of-capacity ones and a changed balance algorithm reload, which pads the slots). After every
// update each shard file lists exactly the backends and servers of the model.
func VerifC05_InstanceShards() {
	shards := nd.Param("SHARDS", 3)
	zzShardWriter = zzC05ShardWrite
	e := zzC12SetupWith(InstanceOptions{BackendShards: shards})
	defer e.cleanup()
	sock := &zzC05OKSock{}
	e.inst.conns.dynUpdate = sock
	minFree := []int{2, 0, 1}[nd.Choice("minfree", nd.Param("MINFREES", 3))]
	block := 1 + nd.Choice("block", nd.Param("BLOCKS", 2))
	napps := nd.Param("BACKENDS", 2)
	cycles := nd.Param("CYCLES", 3)
	ips := []string{"10.0.0.1", "10.0.0.2", "10.0.0.3"}
	algo := make([]string, 3)
	build := func(k, n int) {
		b := e.inst.config.Backends().AcquireBackend(zzC05Apps[k], "app", "8080")
		b.BalanceAlgorithm = algo[k]
		b.Dynamic = hatypes.DynBackendConfig{DynUpdate: true, MinFreeSlots: minFree, BlockSize: block}
		for i := 0; i < n; i++ {
			b.AcquireEndpoint(ips[i], 8080, "")
		}
		e.inst.config.Hosts().AcquireHost(zzC05Apps[k]+".local").AddPath(b, "/", hatypes.MatchBegin)
	}
	for c := 0; c < cycles; c++ {
		for k := 0; k < napps; k++ {
			if c > 0 && !nd.Bool("touched") {
				continue
			}
			n := nd.Choice("endpoints", nd.Param("MAXEP", 3)+1)
			if c > 0 && nd.Bool("reconfigured") {
				// something the runtime api cannot change: this update reloads
				algo[k] = "leastconn" + strconv.Itoa(c)
			}
			if c > 0 {
				e.inst.config.Backends().RemoveAll([]string{zzC05Apps[k] + "_app_8080"})
				e.inst.config.Hosts().RemoveAll([]string{zzC05Apps[k] + ".local"})
			}
			build(k, n)
		}
		err := e.inst.HAProxyUpdate(utils.NewTimer(nil))
		nd.Assert(err == nil, "update-succeeds")
		count := 0
		for j := 0; j < shards; j++ {
			model := zzC05Render(e.inst.config.Backends().BuildSortedShard(j))
			count += len(e.inst.config.Backends().BuildSortedShard(j))
			got := e.shardFile(j)
			nd.Record("shard " + strconv.Itoa(j) + " file=" + strings.Join(got, ";") + " model=" + strings.Join(model, ";"))
			nd.Assert(zzSameLines(got, model), "shard-file-equals-model")
		}
		nd.Assert(count == len(e.inst.config.Backends().Items()), "each-backend-in-exactly-one-shard")
	}
	nd.Reach("end")
}
