package types

// C05 harness: backend shard files follow the model across full and partial update cycles.

import (
	nd "github.com/jcmoraisjr/haproxy-ingress/pkg/zzverifnd"
)

type zzC05Snap struct {
	id      string
	version int
	slots   int // server lines rendered, empty slots included (ignored by backendsMatch)
}

// zzC05Model is what the shard file j has to contain: the backends of the current state
// (Items(), which is also what maps and the dynamic updater read) that belong to shard j.
func zzC05Model(b *Backends, j int) []zzC05Snap {
	var list []*Backend
	for _, bk := range b.Items() {
		if bk.shard == j {
			list = append(list, bk)
		}
	}
	for i := 1; i < len(list); i++ {
		for k := i; k > 0 && list[k].ID < list[k-1].ID; k-- {
			list[k], list[k-1] = list[k-1], list[k]
		}
	}
	return zzC05Snapshot(list)
}

func zzC05Snapshot(items []*Backend) []zzC05Snap {
	out := make([]zzC05Snap, len(items))
	for i, b := range items {
		out[i] = zzC05Snap{id: b.ID, version: b.Server.InitialWeight, slots: len(b.Endpoints)}
	}
	return out
}

func zzC05Equal(a, b []zzC05Snap) bool {
	if len(a) != len(b) {
		return false
	}
	for i := range a {
		if a[i] != b[i] {
			return false
		}
	}
	return true
}

// zzC05Fill gives a just acquired backend its content: the version, one live server and
// optionally an empty slot (what alignSlots leaves behind; backendsMatch ignores empty slots,
// the rendered file does not).
func zzC05Fill(bk *Backend, version int) {
	bk.Server.InitialWeight = version
	bk.AcquireEndpoint("10.0.0.1", 8080, "")
	if nd.Bool("emptyslot") {
		bk.AddEmptyEndpoint()
	}
}

var zzC05Names = []string{"d1", "d2", "d3", "d4"}

// VerifC05_Shards runs CYCLES update cycles (each one full or partial, chosen by the solver) over
// up to BACKENDS named backends whose presence and content version change arbitrarily, writes the
// shard files the way instance.writeConfig does (only ChangedShards(), each from
// BuildSortedShard), and checks after every cycle that every shard file equals the model.
func VerifC05_Shards() {
	shardCount := 1 + nd.Choice("shards", nd.Param("MAXSHARDS", 3))
	nb := nd.Param("BACKENDS", 3)
	cycles := nd.Param("CYCLES", 2)
	names := zzC05Names[:nb]

	b := CreateBackends(shardCount)
	disk := make([][]zzC05Snap, shardCount)
	exists := make([]bool, nb)
	version := make([]int, nb)

	for c := 0; c < cycles; c++ {
		full := c == 0 || nd.Bool("full")
		newExists := make([]bool, nb)
		newVersion := make([]int, nb)
		dirty := make([]bool, nb)
		for k := range names {
			newExists[k] = nd.Bool("exists")
			newVersion[k] = nd.Int("version", 0, 1)
			if !newExists[k] {
				newVersion[k] = 0
			}
			changed := newExists[k] != exists[k] || (newExists[k] && newVersion[k] != version[k])
			// the tracker marks a superset of what changed (its completeness is property C01)
			dirty[k] = changed || nd.Bool("dirty")
		}
		if full {
			// config.Clear() keeps the Backends struct and clears it
			b.Clear()
			for k, n := range names {
				if newExists[k] {
					zzC05Fill(b.AcquireBackend(n, "app", "8080"), newVersion[k])
				}
			}
		} else {
			var ids []string
			for k, n := range names {
				if dirty[k] && exists[k] {
					ids = append(ids, n+"_app_8080")
				}
			}
			b.RemoveAll(ids)
			for k, n := range names {
				if dirty[k] && newExists[k] {
					zzC05Fill(b.AcquireBackend(n, "app", "8080"), newVersion[k])
				}
			}
		}
		b.Shrink()
		// instance.writeConfig: only the changed shards are rendered, each from its sorted content
		for _, j := range b.ChangedShards() {
			disk[j] = zzC05Snapshot(b.BuildSortedShard(j))
		}
		b.Commit()
		copy(exists, newExists)
		copy(version, newVersion)

		// every file HAProxy loads equals the current model
		count := 0
		for j := 0; j < shardCount; j++ {
			cur := zzC05Model(b, j)
			count += len(cur)
			nd.Assert(zzC05Equal(disk[j], cur), "shard-file-equals-model")
		}
		want := 0
		for k, n := range names {
			bk := b.FindBackend(n, "app", "8080")
			nd.Assert((bk != nil) == exists[k], "model-has-exactly-current-backends")
			if exists[k] {
				want++
				nd.Assert(bk.Server.InitialWeight == version[k], "model-has-current-content")
			}
		}
		nd.Assert(count == want, "each-backend-in-exactly-one-shard")
		nd.Assert(len(b.ItemsAdd()) == 0 && len(b.ItemsDel()) == 0 && len(b.ChangedShards()) == 0, "commit-clears-tracking")
	}
	nd.Reach("end")
}
