package gateway

// C10 harness: route attachment (parentRef resolution, sectionName, allowedRoutes).

import (
	"errors"

	api "k8s.io/api/core/v1"
	metav1 "k8s.io/apimachinery/pkg/apis/meta/v1"
	gatewayv1 "sigs.k8s.io/gateway-api/apis/v1"

	convtypes "github.com/jcmoraisjr/haproxy-ingress/pkg/converters/types"
	nd "github.com/jcmoraisjr/haproxy-ingress/pkg/zzverifnd"
)

type zzLogger struct{}

func (zzLogger) InfoV(v int, msg string, args ...interface{}) {}
func (zzLogger) Info(msg string, args ...interface{})         {}
func (zzLogger) Warn(msg string, args ...interface{})         {}
func (zzLogger) Error(msg string, args ...interface{})        {}
func (zzLogger) Fatal(msg string, args ...interface{})        {}

type zzCache struct {
	convtypes.Cache
	nsLabels map[string]string
	nsErr    bool
	gateways map[string]*gatewayv1.Gateway // "ns/name" -> gateway of this controller's class
	gwErr    bool
	reads    []string
}

func (c *zzCache) GetNamespace(name string) (*api.Namespace, error) {
	if c.nsErr {
		return nil, errors.New("namespace not found")
	}
	return &api.Namespace{ObjectMeta: metav1.ObjectMeta{Name: name, Labels: c.nsLabels}}, nil
}

func (c *zzCache) GetGateway(namespace, name string) (*gatewayv1.Gateway, error) {
	c.reads = append(c.reads, namespace+"/"+name)
	if c.gwErr {
		return nil, errors.New("cannot read")
	}
	// the cache returns a nil *Gateway for a gateway of a foreign class or a missing one
	return c.gateways[namespace+"/"+name], nil
}

var zzFroms = []gatewayv1.FromNamespaces{gatewayv1.NamespacesFromSame, gatewayv1.NamespacesFromAll, gatewayv1.NamespacesFromSelector, "Other"}

// VerifC10_ListenerAllowed: the listener admits the route iff its kind is allowed and its
// namespace is admitted by from=Same (same namespace as the gateway), All, or Selector matching
// the labels of the route's namespace.
func VerifC10_ListenerAllowed() {
	cache := &zzCache{}
	c := NewGatewayConverter(&convtypes.ConverterOptions{Logger: zzLogger{}, Cache: cache}, nil, nil, nil).(*converter)
	gwns := "gwns"
	routens := []string{"gwns", "other"}[nd.Choice("route.ns", 2)]
	kind := []string{"HTTPRoute", "TCPRoute"}[nd.Choice("route.kind", 2)]
	gw := &gatewaySource{source: source{kind: "Gateway", namespace: gwns, name: "gw"}}
	route := &source{kind: kind, namespace: routens, name: "r"}

	var listener *gatewayv1.Listener
	hasAllowed := nd.Bool("allowedRoutes")
	kindOK := true
	nsOK := false
	listener = &gatewayv1.Listener{Name: "l1"}
	if hasAllowed {
		ar := &gatewayv1.AllowedRoutes{}
		nkinds := nd.Choice("kinds", 3)
		if nkinds > 0 {
			kindOK = false
		}
		for i := 0; i < nkinds; i++ {
			k := gatewayv1.RouteGroupKind{Kind: gatewayv1.Kind([]string{"HTTPRoute", "TCPRoute", "GRPCRoute"}[nd.Choice("kind", 3)])}
			groupOurs := true
			switch nd.Choice("group", 3) {
			case 1:
				g := gatewayv1.Group(gatewayv1.GroupName)
				k.Group = &g
			case 2:
				g := gatewayv1.Group("example.com")
				k.Group = &g
				groupOurs = false
			}
			if groupOurs && string(k.Kind) == kind {
				kindOK = true
			}
			ar.Kinds = append(ar.Kinds, k)
		}
		if nd.Bool("namespaces") {
			rn := &gatewayv1.RouteNamespaces{}
			// the selector may be present whatever `from` says (e.g. left behind when a Gateway is
			// switched from Selector to Same): it only counts for from=Selector
			selOK := false
			if nd.Bool("selector") {
				want := []string{"prod", "dev"}[nd.Choice("selector.value", 2)]
				rn.Selector = &metav1.LabelSelector{MatchLabels: map[string]string{"env": want}}
				cache.nsErr = nd.Bool("ns.err")
				hasLabel := nd.Bool("ns.haslabel")
				have := []string{"prod", "dev"}[nd.Choice("ns.value", 2)]
				if hasLabel {
					cache.nsLabels = map[string]string{"env": have}
				}
				selOK = !cache.nsErr && hasLabel && have == want
			}
			if nd.Bool("from") {
				f := zzFroms[nd.Choice("fromvalue", len(zzFroms))]
				rn.From = &f
				switch f {
				case gatewayv1.NamespacesFromSame:
					nsOK = routens == gwns
				case gatewayv1.NamespacesFromAll:
					nsOK = true
				case gatewayv1.NamespacesFromSelector:
					nsOK = selOK
				}
			}
			ar.Namespaces = rn
		}
		listener.AllowedRoutes = ar
	}
	err := c.checkListenerAllowed(gw, route, listener)
	admitted := err == nil
	nd.Assert(admitted == (hasAllowed && kindOK && nsOK), "listener-admission-matches-spec")
	if admitted {
		nd.Reach("admitted")
	} else {
		nd.Reach("refused")
	}
	nd.Reach("end")
}

// VerifC10_ParentRefs: a route is offered only to parents that are Gateways (group/kind defaults
// applied) of this controller's class, each looked up in its own parentRef namespace or, when
// that is absent, the route's namespace - whatever the other parentRefs of the route say; the
// sectionName is handed through unchanged.
func VerifC10_ParentRefs() {
	mkgw := func(ns string) *gatewayv1.Gateway {
		g := &gatewayv1.Gateway{ObjectMeta: metav1.ObjectMeta{Namespace: ns, Name: "gw"}}
		g.Spec.Listeners = []gatewayv1.Listener{{Name: "l1"}, {Name: "l2"}}
		return g
	}
	cache := &zzCache{gateways: map[string]*gatewayv1.Gateway{}}
	for _, ns := range []string{"gwns", "other", "elsewhere"} {
		if nd.Bool("gw.ours." + ns) {
			cache.gateways[ns+"/gw"] = mkgw(ns)
		}
	}
	cache.gwErr = nd.Bool("gw.err")
	c := NewGatewayConverter(&convtypes.ConverterOptions{Logger: zzLogger{}, Cache: cache}, nil, nil, nil).(*converter)
	routens := []string{"gwns", "other"}[nd.Choice("route.ns", 2)]
	route := &source{kind: "HTTPRoute", namespace: routens, name: "r"}

	nrefs := 1 + nd.Choice("refs", 2)
	// with two refs the quick tier drops the empty-string spellings of the defaults and all
	// but one section name (FULL=0); a single ref always gets every spelling
	full := nrefs == 1 || nd.Param("FULL", 1) == 1
	pick := func(name string, n int) int {
		if full {
			return nd.Choice(name, n)
		}
		return []int{0, 2, 3}[nd.Choice(name, 3)]
	}
	var refs []gatewayv1.ParentReference
	var wantNS []string // namespace each supported ref must be looked up in
	var sections []*gatewayv1.SectionName
	for k := 0; k < nrefs; k++ {
		ref := gatewayv1.ParentReference{Name: "gw"}
		groupOK, kindOK := true, true
		switch pick("ref.group", 4) {
		case 1:
			g := gatewayv1.Group("")
			ref.Group = &g
		case 2:
			g := gatewayv1.Group(gatewayv1.GroupName)
			ref.Group = &g
		case 3:
			g := gatewayv1.Group("example.com")
			ref.Group = &g
			groupOK = false
		}
		switch pick("ref.kind", 4) {
		case 1:
			k := gatewayv1.Kind("")
			ref.Kind = &k
		case 2:
			k := gatewayv1.Kind("Gateway")
			ref.Kind = &k
		case 3:
			k := gatewayv1.Kind("Service")
			ref.Kind = &k
			kindOK = false
		}
		lookupNS := routens
		switch nd.Choice("ref.ns", 4) {
		case 1:
			n := gatewayv1.Namespace("")
			ref.Namespace = &n
		case 2:
			n := gatewayv1.Namespace("gwns")
			ref.Namespace = &n
			lookupNS = "gwns"
		case 3:
			n := gatewayv1.Namespace("elsewhere")
			ref.Namespace = &n
			lookupNS = "elsewhere"
		}
		var section *gatewayv1.SectionName
		if nd.Bool("ref.section") {
			nsec := 3
			if !full {
				nsec = 1
			}
			s := gatewayv1.SectionName([]string{"l1", "l2", "nope"}[nd.Choice("ref.sectionname", nsec)])
			section = &s
			ref.SectionName = section
		}
		refs = append(refs, ref)
		if groupOK && kindOK {
			wantNS = append(wantNS, lookupNS)
			sections = append(sections, section)
		}
	}
	var gotGW []*gatewaySource
	var gotSection []*gatewayv1.SectionName
	c.syncRoute(route, refs, &gatewayv1.Gateway{}, func(g *gatewaySource, sn *gatewayv1.SectionName) error {
		gotGW, gotSection = append(gotGW, g), append(gotSection, sn)
		return nil
	})
	// every supported ref is looked up once, in its own namespace, in order
	nd.Assert(len(cache.reads) == len(wantNS), "one-lookup-per-gateway-parent")
	var wantOffers []string
	var wantSections []*gatewayv1.SectionName
	for k, ns := range wantNS {
		nd.Assert(cache.reads[k] == ns+"/gw", "gateway-looked-up-in-the-right-namespace")
		if !cache.gwErr && cache.gateways[ns+"/gw"] != nil {
			wantOffers = append(wantOffers, ns)
			wantSections = append(wantSections, sections[k])
		}
	}
	nd.Assert(len(gotGW) == len(wantOffers), "route-offered-only-to-own-class-gateway-parents")
	for k := range wantOffers {
		nd.Assert(gotGW[k].namespace == wantOffers[k] && gotGW[k].name == "gw" && len(gotGW[k].spec.Listeners) == 2, "gateway-source-is-the-referenced-gateway")
		s := wantSections[k]
		nd.Assert((gotSection[k] == nil) == (s == nil) && (s == nil || *gotSection[k] == *s), "section-name-passed-through")
		nd.Reach("offered")
	}
	nd.Reach("end")
}

// VerifC10_SectionName: only listeners selected by the parentRef's sectionName (all when absent)
// are considered for attachment. Observed through the namespace lookups that a Selector-type
// listener performs when it is considered.
func VerifC10_SectionName() {
	cache := &zzCache{nsLabels: map[string]string{"env": "prod"}}
	c := NewGatewayConverter(&convtypes.ConverterOptions{Logger: zzLogger{}, Cache: cache}, nil, nil, nil).(*converter)
	from := gatewayv1.NamespacesFromSelector
	mk := func(name string) gatewayv1.Listener {
		return gatewayv1.Listener{Name: gatewayv1.SectionName(name), AllowedRoutes: &gatewayv1.AllowedRoutes{
			Namespaces: &gatewayv1.RouteNamespaces{From: &from, Selector: &metav1.LabelSelector{MatchLabels: map[string]string{"env": "prod"}}},
		}}
	}
	spec := &gatewayv1.GatewaySpec{Listeners: []gatewayv1.Listener{mk("l1"), mk("l2")}}
	gw := &gatewaySource{source: source{kind: "Gateway", namespace: "gwns", name: "gw"}, spec: spec}
	route := &httpRouteSource{source: source{kind: "HTTPRoute", namespace: "other", name: "r"}, spec: &gatewayv1.HTTPRouteSpec{}}
	var section *gatewayv1.SectionName
	want := 2
	if nd.Bool("section") {
		s := gatewayv1.SectionName([]string{"l1", "l2", "nope", ""}[nd.Choice("sectionname", 4)])
		section = &s
		switch s {
		case "l1", "l2":
			want = 1
		default:
			want = 0
		}
	}
	counter := &zzCountingCache{zzCache: cache}
	c.cache = counter
	err := c.syncHTTPRouteGateway(route, gw, section)
	nd.Assert(err == nil, "no-error")
	nd.Assert(counter.nsReads == want, "only-selected-listeners-considered")
	nd.Reach("end")
}

type zzCountingCache struct {
	*zzCache
	nsReads int
}

func (c *zzCountingCache) GetNamespace(name string) (*api.Namespace, error) {
	c.nsReads++
	return c.zzCache.GetNamespace(name)
}
