package services

// C10 harness (class): GetGateway hands out only gateways whose GatewayClass belongs to this
// controller.

import (
	"context"
	"errors"

	apierrors "k8s.io/apimachinery/pkg/api/errors"
	"k8s.io/apimachinery/pkg/runtime/schema"
	"sigs.k8s.io/controller-runtime/pkg/client"
	gatewayv1 "sigs.k8s.io/gateway-api/apis/v1"

	"github.com/jcmoraisjr/haproxy-ingress/pkg/controller/config"
	nd "github.com/jcmoraisjr/haproxy-ingress/pkg/zzverifnd"
)

type zzGwClient struct {
	client.Client
	gwFound    bool
	gwErr      bool
	classFound bool
	classErr   bool
	controller string
}

func (c *zzGwClient) Get(ctx context.Context, key client.ObjectKey, obj client.Object, opts ...client.GetOption) error {
	switch o := obj.(type) {
	case *gatewayv1.Gateway:
		if c.gwErr {
			return errors.New("transient")
		}
		if !c.gwFound {
			return apierrors.NewNotFound(schema.GroupResource{Resource: "gateways"}, key.Name)
		}
		o.Namespace, o.Name = key.Namespace, key.Name
		o.Spec.GatewayClassName = "cls"
		return nil
	case *gatewayv1.GatewayClass:
		if c.classErr {
			return errors.New("transient")
		}
		if !c.classFound {
			return apierrors.NewNotFound(schema.GroupResource{Resource: "gatewayclasses"}, key.Name)
		}
		o.Name = key.Name
		o.Spec.ControllerName = gatewayv1.GatewayController(c.controller)
		return nil
	}
	return errors.New("unexpected kind")
}

func VerifC10_GatewayClass() {
	cl := &zzGwClient{
		gwFound: nd.Bool("gw.found"), gwErr: nd.Bool("gw.err"),
		classFound: nd.Bool("class.found"), classErr: nd.Bool("class.err"),
		controller: []string{"", "k", "z"}[nd.Choice("class.controller", 3)],
	}
	hasV1 := nd.Bool("hasGatewayV1")
	cache := createCacheFacade(context.Background(), cl, &config.Config{ControllerName: "k", HasGatewayV1: hasV1}, nil, nil, nil, nil)
	gw, err := cache.GetGateway("gwns", "gw")
	ours := hasV1 && !cl.gwErr && cl.gwFound && !cl.classErr && cl.classFound && cl.controller == "k"
	if err == nil && gw != nil {
		nd.Assert(ours, "only-own-class-gateways-are-returned")
		nd.Reach("returned")
	}
	if ours {
		nd.Assert(err == nil && gw != nil && gw.Name == "gw", "own-class-gateway-is-returned")
	}
	nd.Reach("end")
}
