package services

// C10 harness (class): GetGateway hands out only gateways whose GatewayClass belongs to this
// controller.

import (
	"context"
	"errors"

	apierrors "k8s.io/apimachinery/pkg/api/errors"
	"k8s.io/apimachinery/pkg/runtime/schema"
	"sigs.k8s.io/controller-runtime/pkg/client"
	gatewayv1 "sigs.k8s.io/gateway-api/apis/v1"
	gatewayv1alpha2 "sigs.k8s.io/gateway-api/apis/v1alpha2"
	gatewayv1beta1 "sigs.k8s.io/gateway-api/apis/v1beta1"

	"github.com/jcmoraisjr/haproxy-ingress/pkg/controller/config"
	nd "github.com/jcmoraisjr/haproxy-ingress/pkg/zzverifnd"
)

type zzGwClient struct {
	client.Client
	reads []string // api version of every object asked for
	gwFound    bool
	gwErr      bool
	classFound bool
	classErr   bool
	controller string
}

func (c *zzGwClient) Get(ctx context.Context, key client.ObjectKey, obj client.Object, opts ...client.GetOption) error {
	// the three API versions share the v1 layout
	var gw *gatewayv1.Gateway
	var cls *gatewayv1.GatewayClass
	switch o := obj.(type) {
	case *gatewayv1.Gateway:
		gw = o
		c.reads = append(c.reads, "v1")
	case *gatewayv1beta1.Gateway:
		gw = (*gatewayv1.Gateway)(o)
		c.reads = append(c.reads, "v1beta1")
	case *gatewayv1alpha2.Gateway:
		gw = (*gatewayv1.Gateway)(o)
		c.reads = append(c.reads, "v1alpha2")
	case *gatewayv1.GatewayClass:
		cls = o
		c.reads = append(c.reads, "v1")
	case *gatewayv1beta1.GatewayClass:
		cls = (*gatewayv1.GatewayClass)(o)
		c.reads = append(c.reads, "v1beta1")
	case *gatewayv1alpha2.GatewayClass:
		cls = (*gatewayv1.GatewayClass)(o)
		c.reads = append(c.reads, "v1alpha2")
	}
	switch {
	case gw != nil:
		o := gw
		if c.gwErr {
			return errors.New("transient")
		}
		if !c.gwFound {
			return apierrors.NewNotFound(schema.GroupResource{Resource: "gateways"}, key.Name)
		}
		o.Namespace, o.Name = key.Namespace, key.Name
		o.Spec.GatewayClassName = "cls"
		return nil
	case cls != nil:
		o := cls
		if c.classErr {
			return errors.New("transient")
		}
		if !c.classFound {
			return apierrors.NewNotFound(schema.GroupResource{Resource: "gatewayclasses"}, key.Name)
		}
		o.Name = key.Name
		o.Spec.ControllerName = gatewayv1.GatewayController(c.controller)
		return nil
	}
	return errors.New("unexpected kind")
}

func VerifC10_GatewayClass() {
	cl := &zzGwClient{
		gwFound: nd.Bool("gw.found"), gwErr: nd.Bool("gw.err"),
		classFound: nd.Bool("class.found"), classErr: nd.Bool("class.err"),
		controller: []string{"", "k", "z"}[nd.Choice("class.controller", 3)],
	}
	has := [3]bool{nd.Bool("hasGatewayV1"), nd.Bool("hasGatewayB1"), nd.Bool("hasGatewayA2")}
	cache := createCacheFacade(context.Background(), cl, &config.Config{ControllerName: "k", HasGatewayV1: has[0], HasGatewayB1: has[1], HasGatewayA2: has[2]}, nil, nil, nil, nil)
	api := nd.Choice("api", 3)
	var found bool
	var name string
	var err error
	switch api {
	case 0:
		gw, e := cache.GetGateway("gwns", "gw")
		found, err = gw != nil, e
		if gw != nil {
			name = gw.Name
		}
	case 1:
		gw, e := cache.GetGatewayB1("gwns", "gw")
		found, err = gw != nil, e
		if gw != nil {
			name = gw.Name
		}
	case 2:
		gw, e := cache.GetGatewayA2("gwns", "gw")
		found, err = gw != nil, e
		if gw != nil {
			name = gw.Name
		}
	}
	ours := has[api] && !cl.gwErr && cl.gwFound && !cl.classErr && cl.classFound && cl.controller == "k"
	if err == nil && found {
		nd.Assert(ours, "only-own-class-gateways-are-returned")
		nd.Reach("returned")
	}
	if ours {
		nd.Assert(err == nil && found && name == "gw", "own-class-gateway-is-returned")
	}
	// a getter of one API version reads that version only, and nothing when it is disabled
	for _, r := range cl.reads {
		nd.Assert(r == []string{"v1", "v1beta1", "v1alpha2"}[api], "reads-its-own-api-version")
	}
	if !has[api] {
		nd.Assert(len(cl.reads) == 0 && err != nil, "disabled-api-version-reads-nothing")
	}
	nd.Reach("end")
}
