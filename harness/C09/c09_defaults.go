package ingress

// C09 harness: the global configuration a converter works with is the defaults overlaid with the
// ConfigMap as it is now - a cross-namespace key (or any other) that was `allow` in an earlier
// sync and has been removed since is back to its default.

import (
	ingtypes "github.com/jcmoraisjr/haproxy-ingress/pkg/converters/ingress/types"
	convtypes "github.com/jcmoraisjr/haproxy-ingress/pkg/converters/types"
	nd "github.com/jcmoraisjr/haproxy-ingress/pkg/zzverifnd"
)

var zzC09Keys = []string{
	ingtypes.GlobalCrossNamespaceServices,
	ingtypes.GlobalCrossNamespaceSecretsCrt,
	ingtypes.GlobalCrossNamespaceSecretsCA,
	ingtypes.GlobalCrossNamespaceSecretsPasswd,
	ingtypes.GlobalTimeoutClient,
}

// VerifC09_ConfigMapHistory: one ConverterOptions instance, as the controller keeps it (no
// DefaultConfig given), serves SYNCS consecutive syncs; in each the global ConfigMap holds any
// subset of the four cross-namespace keys (as `allow`) and one unrelated key. After every sync
// each key reads as the ConfigMap's value if present now, else as the built-in default.
func VerifC09_ConfigMapHistory() {
	w := zzBaseWorld()
	sys := zzNewSystem(w)
	opts := &convtypes.ConverterOptions{
		Cache: sys.cache, Logger: zzLogger{}, Tracker: sys.tracker,
		DynamicConfig: &convtypes.DynamicConfig{}, DefaultCrtSecret: "system/default",
		AnnotationPrefix: []string{"ingress.kubernetes.io"},
	}
	builtin := createDefaults()
	syncs := nd.Param("SYNCS", 2)
	var prev map[string]string
	for s := 0; s < syncs; s++ {
		data := map[string]string{}
		for _, k := range zzC09Keys {
			if nd.Bool("present") {
				if k == ingtypes.GlobalTimeoutClient {
					data[k] = "11s"
				} else {
					data[k] = "allow"
				}
			}
		}
		changed := &convtypes.ChangedObjects{GlobalConfigMapDataCur: prev, GlobalConfigMapDataNew: data}
		c := NewIngressConverter(opts, sys.hc, changed).(*converter)
		for _, k := range zzC09Keys {
			want, ok := data[k]
			if !ok {
				want = builtin[k]
			}
			nd.Record(k + " = " + c.globalConfig.Get(k).Value + " (ConfigMap now: " + data[k] + ")")
			nd.Assert(c.globalConfig.Get(k).Value == want, "global-key-follows-the-current-configmap")
		}
		prev = data
	}
	nd.Reach("end")
}
