package annotations

// C09 harness (second part): mapping of the four cross-namespace keys and the command-line
// override to the permission bits.

import (
	ingtypes "github.com/jcmoraisjr/haproxy-ingress/pkg/converters/ingress/types"
	convtypes "github.com/jcmoraisjr/haproxy-ingress/pkg/converters/types"
	nd "github.com/jcmoraisjr/haproxy-ingress/pkg/zzverifnd"
)

type zzC09Logger struct{}

func (zzC09Logger) InfoV(v int, msg string, args ...interface{}) {}
func (zzC09Logger) Info(msg string, args ...interface{})         {}
func (zzC09Logger) Warn(msg string, args ...interface{})         {}
func (zzC09Logger) Error(msg string, args ...interface{})        {}
func (zzC09Logger) Fatal(msg string, args ...interface{})        {}

var zzC09Values = []string{"", "allow", "deny", "Allow", "ALLOW", "x", "allowx", "true"}

// VerifC09_GlobalDynamic: a key opens its own resource kind iff its value is allow (any case);
// --allow-cross-namespace opens the three secret kinds only; anything else is deny.
func VerifC09_GlobalDynamic() {
	keys := []string{
		ingtypes.GlobalCrossNamespaceSecretsCA,
		ingtypes.GlobalCrossNamespaceSecretsCrt,
		ingtypes.GlobalCrossNamespaceSecretsPasswd,
		ingtypes.GlobalCrossNamespaceServices,
	}
	vals := make([]string, 4)
	defaults := map[string]string{}
	for i, k := range keys {
		vals[i] = zzC09Values[nd.Choice("value", len(zzC09Values))]
		if nd.Bool("declared") {
			defaults[k] = vals[i]
		} else {
			vals[i] = ""
		}
	}
	static := nd.Bool("static")
	// stale bits from an earlier configuration must not survive
	dyn := &convtypes.DynamicConfig{
		StaticCrossNamespaceSecrets:     static,
		CrossNamespaceSecretCA:          nd.Bool("old.ca"),
		CrossNamespaceSecretCertificate: nd.Bool("old.crt"),
		CrossNamespaceSecretPasswd:      nd.Bool("old.passwd"),
		CrossNamespaceServices:          nd.Bool("old.services"),
	}
	logger := zzC09Logger{}
	c := NewUpdater(nil, &convtypes.ConverterOptions{DynamicConfig: dyn, Logger: logger}).(*updater)
	mapper := NewMapBuilder(logger, defaults).NewMapper()
	c.buildGlobalDynamic(&globalData{mapper: mapper})

	isAllow := func(v string) bool { return v == "allow" || v == "Allow" || v == "ALLOW" }
	nd.Assert(dyn.CrossNamespaceSecretCA == (static || isAllow(vals[0])), "ca-bit")
	nd.Assert(dyn.CrossNamespaceSecretCertificate == (static || isAllow(vals[1])), "crt-bit")
	nd.Assert(dyn.CrossNamespaceSecretPasswd == (static || isAllow(vals[2])), "passwd-bit")
	nd.Assert(dyn.CrossNamespaceServices == isAllow(vals[3]), "services-bit")
	nd.Reach("end")
}
