package services

// C09 harness: cross-namespace isolation of the cache getters.

import (
	"context"
	"errors"

	api "k8s.io/api/core/v1"
	"sigs.k8s.io/controller-runtime/pkg/client"

	"github.com/jcmoraisjr/haproxy-ingress/pkg/controller/config"
	convtypes "github.com/jcmoraisjr/haproxy-ingress/pkg/converters/types"
	nd "github.com/jcmoraisjr/haproxy-ingress/pkg/zzverifnd"
)

// VerifC09_ResourceName: with cross-namespace reading denied and a reader namespace given, the
// resolved namespace is the reader's one (or the call fails); the resolved name is what was asked.
func VerifC09_ResourceName() {
	defNS := nd.String("defns", nd.Choice("defnslen", 3), "ab")
	res := nd.String("res", nd.Choice("reslen", nd.Param("MAXRES", 4)+1), "ab/")
	allow := nd.Bool("allow")
	ns, name, err := buildResourceName(defNS, "secret", res, allow)
	if err != nil {
		nd.Assert(ns == "" && name == "", "error-returns-nothing")
		nd.Reach("refused")
		return
	}
	if !allow && defNS != "" {
		nd.Assert(ns == defNS, "denied-stays-in-reader-namespace")
	}
	// the object read is the one that was named
	// ("/x" is read as the bare name "x")
	nd.Assert(res == name || res == ns+"/"+name || (res == "/"+name && ns == defNS), "name-is-what-was-asked")
	if res == name {
		nd.Assert(ns == defNS, "bare-name-uses-reader-namespace")
	}
	nd.Reach("resolved")
}

type zzC09Client struct {
	client.Client
	reads []string // "kind:namespace/name"
}

func (c *zzC09Client) Get(ctx context.Context, key client.ObjectKey, obj client.Object, opts ...client.GetOption) error {
	switch o := obj.(type) {
	case *api.Secret:
		c.reads = append(c.reads, "secret:"+key.Namespace+"/"+key.Name)
		// the foreign object exists and is perfectly usable: isolation must not depend on luck
		o.Namespace, o.Name = key.Namespace, key.Name
		o.Data = map[string][]byte{"auth": []byte("u:p")}
		return nil
	case *api.Service:
		c.reads = append(c.reads, "service:"+key.Namespace+"/"+key.Name)
		o.Namespace, o.Name = key.Namespace, key.Name
		return nil
	}
	return errors.New("unexpected kind")
}

type zzC09Tracker struct {
	convtypes.Tracker
	tracked []string
}

func (t *zzC09Tracker) TrackRefName(refs []convtypes.TrackingRef, rtype convtypes.ResourceType, name string) {
	t.tracked = append(t.tracked, name)
}

var zzC09Refs = []string{"x", "b/x", "a/x", "secret://b/x", "secret://x", "secret://a/x", "b/x/y", "", "/x", "b/"}

// VerifC09_Getters: reader namespace "a"; a reference into namespace "b" makes the controller read
// (or track) the foreign object only if the getter's own permission is on.
func VerifC09_Getters() {
	dyn := &convtypes.DynamicConfig{
		CrossNamespaceSecretCA:          nd.Bool("allow.ca"),
		CrossNamespaceSecretCertificate: nd.Bool("allow.crt"),
		CrossNamespaceSecretPasswd:      nd.Bool("allow.passwd"),
		CrossNamespaceServices:          nd.Bool("allow.services"),
	}
	cl := &zzC09Client{}
	tr := &zzC09Tracker{}
	cache := createCacheFacade(context.Background(), cl, &config.Config{}, tr, CreateSSLCerts(&config.Config{}), dyn, nil)
	ref := zzC09Refs[nd.Choice("ref", len(zzC09Refs))]
	getter := nd.Choice("getter", 4)
	var own bool
	var err error
	switch getter {
	case 0:
		own = dyn.CrossNamespaceSecretCertificate
		_, err = cache.GetTLSSecretPath("a", ref, nil)
	case 1:
		own = dyn.CrossNamespaceSecretCA
		_, _, err = cache.GetCASecretPath("a", ref, nil)
	case 2:
		own = dyn.CrossNamespaceSecretPasswd
		_, err = cache.GetPasswdSecretContent("a", ref, nil)
	case 3:
		own = dyn.CrossNamespaceServices
		_, err = cache.GetService("a", ref)
	}
	foreign := false
	for _, r := range cl.reads {
		if r == "secret:b/x" || r == "service:b/x" || r == "secret:b/" || r == "service:b/" {
			foreign = true
		}
		nd.Assert(r == "secret:a/x" || r == "service:a/x" || r == "secret:b/x" || r == "service:b/x" ||
			r == "secret:a/" || r == "service:a/" || r == "secret:b/" || r == "service:b/", "reads-only-named-objects")
	}
	for _, t := range tr.tracked {
		if t == "b/x" || t == "b/" {
			foreign = true
		}
	}
	if foreign {
		nd.Assert(own, "foreign-read-needs-own-permission")
		nd.Reach("foreign-read")
	}
	if !own && (ref == "b/x" || ref == "secret://b/x") {
		nd.Assert(err != nil, "denied-reference-fails")
		nd.Assert(len(cl.reads) == 0, "denied-reference-reads-nothing")
		nd.Reach("denied")
	}
	nd.Reach("end")
}
