package annotations

// C09 harness (call sites): every annotation that names a Secret hands the cache getter the
// annotated object's own namespace as reader namespace and the reference exactly as written, so
// that the getter's permission check is the one that decides; and an already built userlist of
// a foreign namespace is not reused without that check.

import (
	"errors"
	"strings"

	ingtypes "github.com/jcmoraisjr/haproxy-ingress/pkg/converters/ingress/types"
	convtypes "github.com/jcmoraisjr/haproxy-ingress/pkg/converters/types"
	"github.com/jcmoraisjr/haproxy-ingress/pkg/haproxy"
	hatypes "github.com/jcmoraisjr/haproxy-ingress/pkg/haproxy/types"
	nd "github.com/jcmoraisjr/haproxy-ingress/pkg/zzverifnd"
)

type zzSiteCall struct {
	getter, reader, name string
}

// zzSiteCache applies the documented policy (same namespace, or the getter's own permission)
// and records how it was asked.
type zzSiteCache struct {
	convtypes.Cache
	dyn   *convtypes.DynamicConfig
	calls []zzSiteCall
	reads []string // "ns/name" actually served
}

func (c *zzSiteCache) resolve(getter, reader, ref string, allow bool) (string, error) {
	c.calls = append(c.calls, zzSiteCall{getter, reader, ref})
	ns, name := reader, ref
	if i := strings.Index(ref, "/"); i >= 0 {
		ns, name = ref[:i], ref[i+1:]
	}
	if reader != "" && ns != reader && !allow {
		return "", errors.New("cross-namespace reading is disabled")
	}
	c.reads = append(c.reads, ns+"/"+name)
	return ns + "/" + name, nil
}

func (c *zzSiteCache) GetTLSSecretPath(reader, ref string, track []convtypes.TrackingRef) (convtypes.CrtFile, error) {
	full, err := c.resolve("crt", reader, ref, c.dyn.CrossNamespaceSecretCertificate)
	if err != nil {
		return convtypes.CrtFile{}, err
	}
	return convtypes.CrtFile{Filename: "/crt/" + full + ".pem", SHA1Hash: "1"}, nil
}

func (c *zzSiteCache) GetCASecretPath(reader, ref string, track []convtypes.TrackingRef) (ca, crl convtypes.File, err error) {
	full, err := c.resolve("ca", reader, ref, c.dyn.CrossNamespaceSecretCA)
	if err != nil {
		return ca, crl, err
	}
	return convtypes.File{Filename: "/ca/" + full + ".pem", SHA1Hash: "1"}, crl, nil
}

func (c *zzSiteCache) GetPasswdSecretContent(reader, ref string, track []convtypes.TrackingRef) ([]byte, error) {
	if _, err := c.resolve("passwd", reader, ref, c.dyn.CrossNamespaceSecretPasswd); err != nil {
		return nil, err
	}
	return []byte("usr1::clear1"), nil
}

type zzSiteTracker struct{ convtypes.Tracker }

func (zzSiteTracker) TrackNames(l convtypes.ResourceType, ln string, r convtypes.ResourceType, rn string) {
}
func (zzSiteTracker) TrackRefName(refs []convtypes.TrackingRef, rtype convtypes.ResourceType, name string) {
}

// foreign namespaces: an unrelated name and one that has the reader's namespace as a string prefix
var zzSiteRefs = []string{"x", "a/x", "b/x", "ab/x"}

// VerifC09_AnnotationSites: an Ingress/Service in namespace "a" uses secure-crt-secret,
// secure-verify-ca-secret, auth-secret and auth-tls-secret with a bare, own-namespace or foreign
// reference. With the kind's permission off, nothing of namespace "b" is served to it, and the
// getter is always asked on behalf of namespace "a" with the reference as written.
func VerifC09_AnnotationSites() {
	logger := zzC09Logger{}
	dyn := &convtypes.DynamicConfig{
		CrossNamespaceSecretCA:          nd.Bool("allow.ca"),
		CrossNamespaceSecretCertificate: nd.Bool("allow.crt"),
		CrossNamespaceSecretPasswd:      nd.Bool("allow.passwd"),
		CrossNamespaceServices:          nd.Bool("allow.services"),
	}
	cache := &zzSiteCache{dyn: dyn}
	hc := haproxy.CreateInstance(logger, haproxy.InstanceOptions{}).Config()
	c := NewUpdater(hc, &convtypes.ConverterOptions{DynamicConfig: dyn, Logger: logger, Cache: cache, Tracker: zzSiteTracker{}}).(*updater)
	src := &Source{Namespace: "a", Name: "ing1", Type: convtypes.ResourceIngress}
	link := hatypes.CreateHostPathLink("d.local", "/", hatypes.MatchBegin)
	ref := zzSiteRefs[nd.Choice("ref", len(zzSiteRefs))]
	site := nd.Choice("site", 5)

	// somebody in namespace b legitimately uses b/x as a password file already
	preExisting := nd.Bool("userlist.exists")
	if preExisting {
		hc.Userlists().Replace("b_x", []hatypes.User{{Name: "bob", Passwd: "secret"}})
		hc.Userlists().Replace("ab_x", []hatypes.User{{Name: "bob", Passwd: "secret"}})
	}

	mapper := NewMapBuilder(logger, map[string]string{
		ingtypes.BackAuthExternalPlacement: "backend",
		ingtypes.BackAuthMethod:            "GET",
		ingtypes.BackAuthHeadersRequest:    "*",
		ingtypes.BackAuthHeadersSucceed:    "*",
		ingtypes.BackAuthHeadersFail:       "*",
	}).NewMapper()
	backend := hc.Backends().AcquireBackend("a", "app", "8080")
	backend.AddBackendPath(link)
	host := hc.Hosts().AcquireHost("d.local")
	var own bool
	switch site {
	case 0:
		own = dyn.CrossNamespaceSecretCertificate
		mapper.AddAnnotations(src, link, map[string]string{ingtypes.BackSecureBackends: "true", ingtypes.BackSecureCrtSecret: ref})
		c.buildBackendProtocol(&backData{backend: backend, mapper: mapper})
	case 1:
		own = dyn.CrossNamespaceSecretCA
		mapper.AddAnnotations(src, link, map[string]string{ingtypes.BackSecureBackends: "true", ingtypes.BackSecureVerifyCASecret: ref})
		c.buildBackendProtocol(&backData{backend: backend, mapper: mapper})
	case 2:
		own = dyn.CrossNamespaceSecretPasswd
		mapper.AddAnnotations(src, link, map[string]string{ingtypes.BackAuthSecret: ref})
		c.buildBackendAuthHTTP(&backData{backend: backend, mapper: mapper})
	case 3:
		own = dyn.CrossNamespaceSecretCA
		mapper.AddAnnotations(src, link, map[string]string{ingtypes.HostAuthTLSSecret: ref})
		c.buildHostAuthTLS(&hostData{host: host, mapper: mapper})
	case 4:
		// auth-url svc://[ns/]x:80 - the services of namespaces a, b and ab are all legitimately
		// exposed by ingresses of their own namespaces already (their backends exist)
		own = dyn.CrossNamespaceServices
		for _, ns := range []string{"a", "b", "ab"} {
			hc.Backends().AcquireBackend(ns, "x", "80").AcquireEndpoint("10.0.0.1", 8080, "")
		}
		hc.Frontend().AuthProxy.Name, hc.Frontend().AuthProxy.RangeStart, hc.Frontend().AuthProxy.RangeEnd = "_front__auth", 14415, 14420
		mapper.AddAnnotations(src, link, map[string]string{ingtypes.BackAuthURL: "svc://" + ref + ":80"})
		c.buildBackendAuthExternal(&backData{backend: backend, mapper: mapper})
	}
	for _, call := range cache.calls {
		nd.Record("getter " + call.getter + " asked as reader=" + call.reader + " name=" + call.name)
		nd.Assert(call.reader == "a", "getter-asked-on-behalf-of-the-annotated-namespace")
		// the object designated must be the one written (a/x may be passed as x)
		want := ref
		if !strings.Contains(want, "/") {
			want = "a/" + want
		}
		got := call.name
		if !strings.Contains(got, "/") {
			got = call.reader + "/" + got
		}
		nd.Assert(got == want, "reference-designates-the-written-object")
	}
	foreign := ref == "b/x" || ref == "ab/x"
	if foreign && !own {
		for _, r := range cache.reads {
			nd.Assert(strings.HasPrefix(r, "a/"), "foreign-secret-not-served")
		}
		nd.Assert(backend.Server.CrtFilename == "" && backend.Server.CAFilename == "" && host.TLS.CAFilename == "", "foreign-secret-not-configured")
		for _, p := range backend.Paths {
			nd.Assert(p.AuthHTTP.UserlistName == "", "foreign-password-file-not-used")
			nd.Assert(p.AuthExternal.AuthBackendName == "", "foreign-service-not-used")
			if site == 4 {
				nd.Assert(p.AuthExternal.AlwaysDeny, "refused-auth-service-fails-closed")
			}
		}
		nd.Reach("denied")
	}
	nd.Reach("end")
}
