package utils

// C03 harness (kernels): the Service port an Ingress rule names, and the endpoints it yields.

import (
	"errors"
	"strconv"

	api "k8s.io/api/core/v1"
	discoveryv1 "k8s.io/api/discovery/v1"
	"k8s.io/apimachinery/pkg/util/intstr"

	"github.com/jcmoraisjr/haproxy-ingress/pkg/converters/types"
	nd "github.com/jcmoraisjr/haproxy-ingress/pkg/zzverifnd"
)

var zzPortNumbers = []int32{80, 8080}
var zzTargetNumbers = []int{80, 8080, 9090}

// VerifC03_ServicePort: `service.port.name` designates the Service port with that name and
// `service.port.number` the Service port with that number (Ingress v1 API); the resolver must
// return exactly that port whenever it exists.
func VerifC03_ServicePort() {
	svc := &api.Service{}
	n := 1 + nd.Choice("ports", 2)
	names := []string{"a", "b"}
	swap := nd.Bool("swapnumbers") // port numbers are unique inside a Service
	for i := 0; i < n; i++ {
		p := api.ServicePort{Name: names[i], Port: zzPortNumbers[i]}
		if swap {
			p.Port = zzPortNumbers[1-i]
		}
		if nd.Bool("namedtarget") {
			p.TargetPort = intstr.FromString([]string{"web", "a", "b"}[nd.Choice("targetname", 3)])
		} else {
			p.TargetPort = intstr.FromInt(zzTargetNumbers[nd.Choice("target", len(zzTargetNumbers))])
		}
		svc.Spec.Ports = append(svc.Spec.Ports, p)
	}
	var ref string
	var want *api.ServicePort
	if nd.Bool("byname") {
		ref = names[nd.Choice("refname", 2)]
		for i := range svc.Spec.Ports {
			if svc.Spec.Ports[i].Name == ref {
				want = &svc.Spec.Ports[i]
			}
		}
	} else {
		num := zzPortNumbers[nd.Choice("refnumber", 2)]
		ref = strconv.Itoa(int(num))
		for i := range svc.Spec.Ports {
			if svc.Spec.Ports[i].Port == num {
				want = &svc.Spec.Ports[i]
			}
		}
	}
	got := FindServicePort(svc, ref)
	if want != nil {
		nd.Record("reference " + ref + " designates port " + want.Name + "/" + strconv.Itoa(int(want.Port)))
		nd.Assert(got != nil, "designated-port-found")
		nd.Assert(got.Name == want.Name && got.Port == want.Port, "resolves-to-the-designated-service-port")
		nd.Reach("designated")
	}
	nd.Reach("end")
}

type zzEpCache struct {
	types.Cache
	ep  *api.Endpoints
	err bool
}

func (c *zzEpCache) GetEndpoints(service *api.Service) (*api.Endpoints, error) {
	if c.err {
		return nil, errors.New("not found")
	}
	return c.ep, nil
}
func (c *zzEpCache) GetEndpointSlices(service *api.Service) ([]*discoveryv1.EndpointSlice, error) {
	return nil, nil
}

// VerifC03_Endpoints: the ready list holds exactly the ready addresses of the TCP endpoint ports
// whose name matches the Service port, the not-ready list exactly the not-ready ones; nothing of
// other ports or protocols.
func VerifC03_Endpoints() {
	svcPort := &api.ServicePort{Name: []string{"", "a", "b"}[nd.Choice("svcport.name", 3)], Port: 80}
	ep := &api.Endpoints{}
	ips := []string{"10.0.0.1", "10.0.0.2", "10.0.0.3", "10.0.0.4"}
	type exp struct {
		ip    string
		port  int
		ready bool
	}
	var want []exp
	nsub := 1 + nd.Choice("subsets", 2)
	k := 0
	for s := 0; s < nsub; s++ {
		sub := api.EndpointSubset{}
		pname := []string{"a", "b"}[nd.Choice("epport.name", 2)]
		proto := []api.Protocol{api.ProtocolTCP, api.ProtocolUDP}[nd.Choice("epport.proto", 2)]
		pnum := int32(8080 + s)
		sub.Ports = []api.EndpointPort{{Name: pname, Port: pnum, Protocol: proto}}
		matches := proto == api.ProtocolTCP && (svcPort.Name == "" || svcPort.Name == pname)
		if nd.Bool("ready") {
			sub.Addresses = append(sub.Addresses, api.EndpointAddress{IP: ips[k]})
			if matches {
				want = append(want, exp{ips[k], int(pnum), true})
			}
			k++
		}
		if nd.Bool("notready") {
			sub.NotReadyAddresses = append(sub.NotReadyAddresses, api.EndpointAddress{IP: ips[k]})
			if matches {
				want = append(want, exp{ips[k], int(pnum), false})
			}
			k++
		}
		ep.Subsets = append(ep.Subsets, sub)
	}
	cache := &zzEpCache{ep: ep}
	ready, notReady, err := CreateEndpoints(cache, &api.Service{}, svcPort, false)
	nd.Assert(err == nil, "no-error")
	nr, nn := 0, 0
	for _, w := range want {
		found := false
		list := ready
		if !w.ready {
			list = notReady
		}
		for _, e := range list {
			if e.IP == w.ip && e.Port == w.port {
				found = true
			}
		}
		nd.Assert(found, "designated-address-listed-in-its-readiness-class")
		if w.ready {
			nr++
		} else {
			nn++
		}
	}
	nd.Assert(len(ready) == nr && len(notReady) == nn, "nothing-but-designated-addresses")
	nd.Reach("end")
}

type zzSliceCache struct {
	types.Cache
	slices []*discoveryv1.EndpointSlice
}

func (c *zzSliceCache) GetEndpointSlices(service *api.Service) ([]*discoveryv1.EndpointSlice, error) {
	return c.slices, nil
}

// VerifC03_EndpointSlices: same statement through the EndpointSlice API (--enable-endpointslices-api):
// 1..2 slices, each with one port (name, protocol) and up to two endpoints whose ready condition is
// unset (to be read as ready), true or false.
func VerifC03_EndpointSlices() {
	svcPort := &api.ServicePort{Name: []string{"", "a", "b"}[nd.Choice("svcport.name", 3)], Port: 80}
	if nd.Bool("svcport.proto.set") {
		svcPort.Protocol = []api.Protocol{api.ProtocolTCP, api.ProtocolUDP}[nd.Choice("svcport.proto", 2)]
	}
	wantProto := api.ProtocolTCP
	if svcPort.Protocol != "" {
		wantProto = svcPort.Protocol
	}
	ips := []string{"10.0.0.1", "10.0.0.2", "10.0.0.3", "10.0.0.4"}
	type exp struct {
		ip    string
		port  int
		ready bool
	}
	var want []exp
	var slices []*discoveryv1.EndpointSlice
	nsl := 1 + nd.Choice("slices", 2)
	k := 0
	for s := 0; s < nsl; s++ {
		sl := &discoveryv1.EndpointSlice{}
		pname := []string{"a", "b"}[nd.Choice("epport.name", 2)]
		proto := []api.Protocol{api.ProtocolTCP, api.ProtocolUDP}[nd.Choice("epport.proto", 2)]
		pnum := int32(8080 + s)
		sl.Ports = []discoveryv1.EndpointPort{{Name: &pname, Port: &pnum, Protocol: &proto}}
		matches := proto == wantProto && (svcPort.Name == "" || svcPort.Name == pname)
		nep := nd.Choice("endpoints", 3)
		for e := 0; e < nep; e++ {
			ep := discoveryv1.Endpoint{Addresses: []string{ips[k]}}
			isReady := true
			switch nd.Choice("ready", 3) {
			case 1:
				t := true
				ep.Conditions.Ready = &t
			case 2:
				f := false
				ep.Conditions.Ready = &f
				isReady = false
			}
			sl.Endpoints = append(sl.Endpoints, ep)
			if matches {
				want = append(want, exp{ips[k], int(pnum), isReady})
			}
			k++
		}
		slices = append(slices, sl)
	}
	ready, notReady, err := CreateEndpoints(&zzSliceCache{slices: slices}, &api.Service{}, svcPort, true)
	nd.Assert(err == nil, "no-error")
	nr, nn := 0, 0
	for _, w := range want {
		list := ready
		if !w.ready {
			list = notReady
		}
		found := false
		for _, e := range list {
			if e.IP == w.ip && e.Port == w.port {
				found = true
			}
		}
		nd.Assert(found, "designated-address-listed-in-its-readiness-class")
		if w.ready {
			nr++
		} else {
			nn++
		}
	}
	nd.Assert(len(ready) == nr && len(notReady) == nn, "nothing-but-designated-addresses")
	nd.Reach("end")
}
