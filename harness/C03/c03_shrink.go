package types

// C03 harness (consumer of the converter's endpoints): a partial sync removes a dirty backend and
// rebuilds it; Backends.Shrink then keeps the old object when backendsMatch says nothing changed.
// Whatever it keeps, the endpoints of the surviving model must be the ones just built - same
// addresses, same readiness (weight 0 = draining / not ready), same enabled flag.

import (
	nd "github.com/jcmoraisjr/haproxy-ingress/pkg/zzverifnd"
)

type zzC03Ep struct {
	present bool
	weight  int
	label   string
}

func zzC03Build(b *Backends, eps []zzC03Ep) *Backend {
	back := b.AcquireBackend("default", "echo", "8080")
	back.Server.InitialWeight = 1
	ips := []string{"172.17.0.11", "172.17.0.12", "172.17.0.13"}
	for i, e := range eps {
		if e.present {
			ep := back.AcquireEndpoint(ips[i], 8080, "")
			ep.Weight = e.weight
			ep.Label = e.label
		}
	}
	return back
}

// VerifC03_ShrinkKeepsReadiness: CYCLES rebuilds of one backend with up to SLOTS endpoints whose
// presence, weight (0 or 1) and label (first slot) are symbolic per cycle; after every Shrink the model
// (FindBackend) holds exactly the endpoints of the last build, and a difference from the committed
// state is tracked as a change (otherwise nothing is written or applied).
func VerifC03_ShrinkKeepsReadiness() {
	cycles := nd.Param("CYCLES", 2)
	b := CreateBackends(0)
	var prev []zzC03Ep
	for c := 0; c <= cycles; c++ {
		eps := make([]zzC03Ep, nd.Param("SLOTS", 2))
		for i := range eps {
			eps[i].present = nd.Bool("ep.present")
			eps[i].weight = nd.Choice("ep.weight", 2)
			if i == 0 {
				eps[i].label = []string{"", "v1"}[nd.Choice("ep.label", 2)]
			}
		}
		if c > 0 {
			old := b.FindBackend("default", "echo", "8080")
			b.RemoveAll([]string{old.ID})
		}
		zzC03Build(b, eps)
		b.Shrink()
		cur := b.FindBackend("default", "echo", "8080")
		nd.Assert(cur != nil, "backend-exists")
		ips := []string{"172.17.0.11", "172.17.0.12", "172.17.0.13"}
		n := 0
		differs := false
		for i, e := range eps {
			if c > 0 && (e.present != prev[i].present || (e.present && (e.weight != prev[i].weight || e.label != prev[i].label))) {
				differs = true
			}
			if !e.present {
				continue
			}
			n++
			found := 0
			for _, ep := range cur.Endpoints {
				if !ep.IsEmpty() && ep.IP == ips[i] && ep.Port == 8080 {
					found++
					nd.Assert(ep.Weight == e.weight, "surviving-endpoint-has-the-readiness-just-built")
					nd.Assert(ep.Label == e.label, "surviving-endpoint-has-the-label-just-built")
					nd.Assert(ep.Enabled, "surviving-endpoint-enabled")
				}
			}
			nd.Assert(found == 1, "built-endpoint-is-in-the-model-once")
		}
		live := 0
		for _, ep := range cur.Endpoints {
			if !ep.IsEmpty() {
				live++
			}
		}
		nd.Assert(live == n, "nothing-but-the-built-endpoints")
		if differs {
			nd.Assert(b.Changed(), "endpoint-difference-is-tracked-as-a-change")
		}
		b.Commit()
		prev = eps
	}
	nd.Reach("end")
}
