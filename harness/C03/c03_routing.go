package ingress

// C03 harness (routing, converter level): requests reach the ready endpoints of the Service the
// selected Ingress rule designates.

import (
	"strings"

	api "k8s.io/api/core/v1"
	networking "k8s.io/api/networking/v1"

	convtypes "github.com/jcmoraisjr/haproxy-ingress/pkg/converters/types"
	hatypes "github.com/jcmoraisjr/haproxy-ingress/pkg/haproxy/types"
	nd "github.com/jcmoraisjr/haproxy-ingress/pkg/zzverifnd"
)

func zzMapLookup(files []*hatypes.MatchFile, sample string) string {
	for _, f := range files {
		s := sample
		if f.Lower() {
			s = strings.ToLower(s)
		}
		for _, e := range f.Values() {
			hit := false
			switch f.Method() {
			case "str":
				hit = s == e.Key
			case "beg":
				hit = strings.HasPrefix(s, e.Key)
			}
			if hit {
				return e.Value
			}
		}
	}
	return ""
}

type zzRouteRule struct {
	created int64
	name    string
	host    string
	path    string
	svc     string
	tls     bool
}

var zzC03Paths = []string{"/", "/app"}
var zzC03ReqHosts = []string{"h1.local", "h2.local", "h3.local"}
var zzC03ReqPaths = []string{"/", "/app", "/app/x", "/x"}

func VerifC03_Routing() {
	w := &zzWorld{secrets: map[string]string{"default/t1": "v1", "system/default": "v1"}}
	w.svcs, w.eps = zzBaseServices()
	// s1 has one ready and one not-ready address
	w.eps["default/s1"].Subsets[0].NotReadyAddresses = []api.EndpointAddress{{IP: "10.0.0.7"}}
	drain := nd.Bool("drain-support")

	var rules []zzRouteRule
	for i, name := range []string{"i1", "i2"} {
		created := int64(1 + i)
		if i == 0 && nd.Bool("i1.newer") {
			created = 3
		}
		r := zzRouteRule{created: created, name: name,
			host: zzHosts[nd.Choice("host", 2)], path: zzC03Paths[nd.Choice("path", 2)], svc: zzSvcs[nd.Choice("svc", 2)], tls: nd.Bool("tls")}
		rules = append(rules, r)
		ing := zzIngress(name, created, "none")
		ing.Spec.Rules = []networking.IngressRule{{Host: r.host}}
		ing.Spec.Rules[0].HTTP = &networking.HTTPIngressRuleValue{Paths: []networking.HTTPIngressPath{{
			Path: r.path,
			Backend: networking.IngressBackend{Service: &networking.IngressServiceBackend{
				Name: r.svc, Port: networking.ServiceBackendPort{Number: zzSvcPort(r.svc)},
			}},
		}}}
		if r.tls {
			ing.Spec.TLS = []networking.IngressTLS{{Hosts: []string{r.host}, SecretName: "t1"}}
		}
		w.ings = append(w.ings, ing)
	}
	sys := zzNewSystem(w)
	sys.drain = drain
	c := sys.converter(&convtypes.ChangedObjects{GlobalConfigMapDataNew: map[string]string{}})
	c.Sync(true)
	// the neutral updater does not run buildGlobalPathTypeOrder; use the documented default
	sys.hc.Global().MatchOrder = hatypes.DefaultMatchOrder
	nd.Assert(sys.hc.WriteFrontendMaps() == nil, "maps-written")
	maps := sys.hc.Frontend().Maps

	reqHost := zzC03ReqHosts[nd.Choice("req.host", 3)]
	reqPath := zzC03ReqPaths[nd.Choice("req.path", 4)]
	// documented selection: host first, then the longest declared path that is a prefix of the
	// request path (ImplementationSpecific = begin); a duplicated path belongs to the first-created
	// ingress (name as tie-break)
	best := -1
	for i, r := range rules {
		if r.host != reqHost || !strings.HasPrefix(reqPath, r.path) {
			continue
		}
		if best < 0 {
			best = i
			continue
		}
		b := rules[best]
		switch {
		case len(r.path) > len(b.path):
			best = i
		case len(r.path) == len(b.path) && (r.created < b.created || (r.created == b.created && r.name < b.name)):
			best = i
		}
	}
	got := zzMapLookup(maps.HTTPHostMap.MatchFiles(), reqHost+"#"+reqPath)
	gotTLS := zzMapLookup(maps.HTTPSHostMap.MatchFiles(), reqHost+"#"+reqPath)
	if best < 0 {
		nd.Assert(got == "" && gotTLS == "", "no-rule-falls-through-to-defaults")
		nd.Reach("miss")
		return
	}
	want := "default_" + rules[best].svc + "_8080"
	for k, v := range zzDigest(sys.hc) {
		nd.Record("model " + k + " = " + v)
	}
	nd.Record("request " + reqHost + reqPath + " want " + want + " got http=" + got + " https=" + gotTLS)
	for _, f := range maps.HTTPHostMap.MatchFiles() {
		for _, e := range f.Values() {
			nd.Record("map " + f.Filename() + " " + f.Method() + ": " + e.Key + " -> " + e.Value)
		}
	}
	nd.Assert(got == want, "http-request-reaches-designated-service")
	hostHasTLS := false
	for _, r := range rules {
		if r.host == reqHost && r.tls {
			hostHasTLS = true
		}
	}
	if hostHasTLS {
		nd.Assert(gotTLS == want, "https-request-reaches-designated-service")
	} else {
		// whether a host without a tls entry is also offered over https with the default
		// certificate is decided by the annotation updater (ssl-always-add-https), which is
		// neutral in this harness; only the target is checked
		nd.Assert(gotTLS == "" || gotTLS == want, "https-never-reaches-another-service")
	}
	// the servers of that backend
	back := sys.hc.Backends().FindBackend("default", rules[best].svc, "8080")
	nd.Assert(back != nil, "designated-backend-exists")
	readyIP := map[string]string{"s1": "10.0.0.1", "s2": "10.0.0.2"}[rules[best].svc]
	sawReady := false
	for _, ep := range back.Endpoints {
		if ep.IsEmpty() {
			continue
		}
		switch ep.IP {
		case readyIP:
			sawReady = true
			nd.Assert(ep.Enabled && ep.Weight > 0 && ep.Port == 8080, "ready-endpoint-serves")
		case "10.0.0.7":
			nd.Assert(drain && rules[best].svc == "s1", "not-ready-only-with-drain-support")
			nd.Assert(ep.Weight == 0, "not-ready-endpoint-drains")
			nd.Reach("draining")
		default:
			nd.Assert(false, "no-foreign-endpoint")
		}
	}
	nd.Assert(sawReady, "ready-endpoint-present")
	nd.Reach("hit")
}
