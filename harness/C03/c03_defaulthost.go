package ingress

// C03 harness (default host): requests that match no declared host fall to the default host,
// whose rules come from empty-host rules and from spec.defaultBackend (a catch-all "/").

import (
	"strings"

	networking "k8s.io/api/networking/v1"

	convtypes "github.com/jcmoraisjr/haproxy-ingress/pkg/converters/types"
	hatypes "github.com/jcmoraisjr/haproxy-ingress/pkg/haproxy/types"
	nd "github.com/jcmoraisjr/haproxy-ingress/pkg/zzverifnd"
)

func zzDirHit(sample, pattern string) bool {
	pat := strings.Trim(pattern, "/")
	if pat == "" {
		return true
	}
	for i := 0; i+len(pat) <= len(sample); i++ {
		if i > 0 && sample[i-1] != '/' {
			continue
		}
		if sample[i:i+len(pat)] != pat {
			continue
		}
		if end := i + len(pat); end == len(sample) || sample[end] == '/' {
			return true
		}
	}
	return false
}

func zzMapLookupAll(files []*hatypes.MatchFile, sample string) string {
	for _, f := range files {
		s := sample
		if f.Lower() {
			s = strings.ToLower(s)
		}
		for _, e := range f.Values() {
			hit := false
			switch f.Method() {
			case "str":
				hit = s == e.Key
			case "beg":
				hit = strings.HasPrefix(s, e.Key)
			case "dir":
				hit = zzDirHit(s, e.Key)
			}
			if hit {
				return e.Value
			}
		}
	}
	return ""
}

var zzPathTypes = []networking.PathType{networking.PathTypeImplementationSpecific, networking.PathTypeExact, networking.PathTypePrefix}

func VerifC03_DefaultHost() {
	w := &zzWorld{secrets: map[string]string{"system/default": "v1"}}
	w.svcs, w.eps = zzBaseServices()
	// i1: optional empty-host rule "/" of some path type -> s1
	hasRule := nd.Bool("i1.rule")
	ptype := zzPathTypes[nd.Choice("i1.pathtype", 3)]
	i1created := int64(1)
	if nd.Bool("i1.newer") {
		i1created = 3
	}
	i1 := zzIngress("i1", i1created, "none")
	if hasRule {
		pt := ptype
		i1.Spec.Rules = []networking.IngressRule{{Host: ""}}
		i1.Spec.Rules[0].HTTP = &networking.HTTPIngressRuleValue{Paths: []networking.HTTPIngressPath{{
			Path: "/", PathType: &pt,
			Backend: networking.IngressBackend{Service: &networking.IngressServiceBackend{
				Name: "s1", Port: networking.ServiceBackendPort{Number: zzSvcPort("s1")},
			}},
		}}}
	}
	// i2: optional spec.defaultBackend -> s2
	hasDefault := nd.Bool("i2.defaultBackend")
	i2 := zzIngress("i2", 2, "none")
	if hasDefault {
		i2.Spec.DefaultBackend = &networking.IngressBackend{Service: &networking.IngressServiceBackend{
			Name: "s2", Port: networking.ServiceBackendPort{Number: zzSvcPort("s2")},
		}}
	}
	w.ings = []*networking.Ingress{i1, i2}
	sys := zzNewSystem(w)
	c := sys.converter(&convtypes.ChangedObjects{GlobalConfigMapDataNew: map[string]string{}})
	c.Sync(true)
	sys.hc.Global().MatchOrder = hatypes.DefaultMatchOrder
	nd.Assert(sys.hc.WriteFrontendMaps() == nil, "maps-written")
	maps := sys.hc.Frontend().Maps

	reqPath := []string{"/", "/foo"}[nd.Choice("req.path", 2)]
	// an unknown host: nothing in the host maps, then the default host map
	nd.Assert(zzMapLookupAll(maps.HTTPHostMap.MatchFiles(), "h3.local#"+reqPath) == "", "unknown-host-misses-host-map")
	got := zzMapLookupAll(maps.DefaultHostMap.MatchFiles(), hatypes.DefaultHost+"#"+reqPath)

	ruleMatches := hasRule && (ptype != networking.PathTypeExact || reqPath == "/")
	s1, s2 := "default_s1_8080", "default_s2_8080"
	switch {
	case ruleMatches && hasRule && ptype == networking.PathTypeExact:
		nd.Assert(got == s1, "exact-default-host-rule-first")
	case ruleMatches && hasDefault:
		// "/" declared twice with non-exact types: the first-created one when the types are the
		// same (the later one is a rejected duplicate), either when the types differ
		if ptype == networking.PathTypeImplementationSpecific {
			first := s1
			if i1created > 2 {
				first = s2
			}
			nd.Assert(got == first, "duplicated-root-goes-to-first-created")
		} else {
			nd.Assert(got == s1 || got == s2, "root-goes-to-a-declared-service")
		}
	case ruleMatches:
		nd.Assert(got == s1, "default-host-rule-serves")
	case hasDefault:
		nd.Assert(got == s2, "ingress-default-backend-catches-the-rest")
		nd.Reach("catch-all")
	default:
		nd.Assert(got == "", "nothing-declared-falls-to-global-default-backend")
	}
	nd.Reach("end")
}
