// Package zzverifnd is the harness-side API of the /verif symbolic executor.
//
// Under the executor every function below is intercepted by name: Bool/Int/Byte/String
// return fresh symbolic values, Choice forks, Assume prunes, Assert becomes a solver query.
// Compiled natively (replay of a counterexample or of a path witness) the same functions read
// the concrete values from a replay vector, so the very same harness drives the real build.
//
// This file is injected into the module with a build overlay; it is never part of /repo.
package zzverifnd

import (
	"encoding/json"
	"fmt"
	"os"
	"path/filepath"
	"sort"
	"strconv"
	"strings"
	"time"
)

type replayVec struct {
	Entry  string            `json:"entry"`
	Inputs map[string]string `json:"inputs"`
	Params map[string]int    `json:"params"`
}

type replayOut struct {
	Entry    string   `json:"entry"`
	Outcome  string   `json:"outcome"` // ok | assert-fail:<id> | assume-fail | missing-input:<k> | panic:<msg>
	Events   []string `json:"events"`
	Recorded []string `json:"recorded"`
}

var (
	cur      replayVec
	counts   map[string]int
	events   []string
	recorded []string
	start    time.Time
	slept    time.Duration
	fakeClock bool
)

type assertFail struct{ id string }
type assumeFail struct{}
type missingInput struct{ key string }
type skipReplay struct{}

func sanitize(s string) string {
	return strings.Map(func(r rune) rune {
		if r == '|' || r == '\\' || r < 0x20 || r > 0x7e {
			return '_'
		}
		return r
	}, s)
}

func next(name string) int64 {
	base := sanitize(name)
	k := counts[base]
	counts[base] = k + 1
	key := fmt.Sprintf("%s#%d", base, k)
	s, ok := cur.Inputs[key]
	if !ok {
		panic(missingInput{key})
	}
	v, err := strconv.ParseInt(s, 10, 64)
	if err != nil {
		u, err2 := strconv.ParseUint(s, 10, 64)
		if err2 != nil {
			panic(missingInput{key + " (unparsable " + s + ")"})
		}
		v = int64(u)
	}
	return v
}

// Symbolic reports whether the harness runs under the symbolic executor.
func Symbolic() bool { return false }

// Param returns a bound chosen by the check's tier (quick/thorough).
func Param(name string, def int) int {
	if v, ok := cur.Params[name]; ok {
		return v
	}
	return def
}

func Bool(name string) bool { return next(name) != 0 }

// Int returns an arbitrary int with lo <= v <= hi.
func Int(name string, lo, hi int) int {
	v := int(next(name))
	if v < lo || v > hi {
		panic(assumeFail{})
	}
	return v
}

func Int64(name string) int64 { return next(name) }

// Byte returns an arbitrary byte of the alphabet ("" = any ASCII byte).
func Byte(name, alphabet string) byte { return byte(next(name)) }

// String returns a string of exactly n bytes over the alphabet.
func String(name string, n int, alphabet string) string {
	b := make([]byte, n)
	for i := range b {
		b[i] = Byte(fmt.Sprintf("%s[%d]", name, i), alphabet)
	}
	return string(b)
}

// Choice returns a value in 0..n-1; the executor explores every one of them.
func Choice(name string, n int) int { return int(next(name)) }

func Assume(c bool) {
	if !c {
		panic(assumeFail{})
	}
}

func Assert(c bool, id string) {
	if !c {
		events = append(events, "FAIL:"+id)
		panic(assertFail{id})
	}
	events = append(events, "assert:"+id)
}

func Reach(id string) { events = append(events, "reach:"+id) }

// Record attaches a note to a counterexample (shown with the violation).
func Record(s string) { recorded = append(recorded, s) }

// Note marks a modelling assumption that was exercised (listed in the evidence).
func Note(s string) {}

// LockHeld reports whether the mutex is held (natively: by anybody).
func LockHeld(mu interface{}) bool {
	type tryLocker interface {
		TryLock() bool
		Unlock()
	}
	l, ok := mu.(tryLocker)
	if !ok {
		panic("LockHeld needs a mutex")
	}
	if l.TryLock() {
		l.Unlock()
		return false
	}
	return true
}

// Sleep lets at least d pass on the monotonic clock.
// Natively it sleeps for real; vectors needing more than 4s in total are skipped.
func Sleep(d time.Duration) {
	if d > 0 {
		slept += d
		if !fakeClock && slept > 4*time.Second {
			panic(skipReplay{})
		}
		time.Sleep(d)
	}
}

// MonoNow is a monotonic clock reading in nanoseconds.
func MonoNow() int64 { return int64(time.Since(start)) + 1 }

type logger interface {
	Logf(format string, args ...any)
	Errorf(format string, args ...any)
}

func runOne(fn func()) (out string) {
	defer func() {
		if p := recover(); p != nil {
			switch x := p.(type) {
			case assertFail:
				out = "assert-fail:" + x.id
			case assumeFail:
				out = "assume-fail"
			case missingInput:
				out = "missing-input:" + x.key
			case skipReplay:
				out = "skipped"
			default:
				events = append(events, "panic")
				out = fmt.Sprintf("panic:%v", p)
			}
		}
	}()
	fn()
	return "ok"
}

// RunReplay executes every replay vector found in $VERIF_REPLAY_DIR against the native build
// and writes <vector>.out next to each.
func RunReplay(t logger, entries map[string]func()) { RunReplayWith(t, entries, nil) }

// RunReplayWith runs each vector inside wrap (e.g. a testing/synctest bubble, which gives the
// native run an exact fake clock).
func RunReplayWith(t logger, entries map[string]func(), wrap func(func())) {
	fakeClock = wrap != nil
	dir := os.Getenv("VERIF_REPLAY_DIR")
	if dir == "" {
		t.Logf("VERIF_REPLAY_DIR not set; nothing to replay")
		return
	}
	files, _ := filepath.Glob(filepath.Join(dir, "*.json"))
	sort.Strings(files)
	for _, f := range files {
		raw, err := os.ReadFile(f)
		if err != nil {
			t.Errorf("read %s: %v", f, err)
			continue
		}
		cur = replayVec{}
		if err := json.Unmarshal(raw, &cur); err != nil {
			t.Errorf("parse %s: %v", f, err)
			continue
		}
		fn := entries[cur.Entry]
		if fn == nil {
			continue
		}
		counts = map[string]int{}
		events = nil
		recorded = nil
		slept = 0
		var outcome string
		if wrap != nil {
			wrap(func() { start = time.Now(); outcome = runOne(fn) })
		} else {
			start = time.Now()
			outcome = runOne(fn)
		}
		out := replayOut{Entry: cur.Entry, Outcome: outcome, Events: events, Recorded: recorded}
		b, _ := json.MarshalIndent(out, "", " ")
		if err := os.WriteFile(f+".out", b, 0o644); err != nil {
			t.Errorf("write %s.out: %v", f, err)
		}
		t.Logf("replay %s: %s", filepath.Base(f), outcome)
	}
}
