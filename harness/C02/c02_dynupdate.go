package haproxy

// C02 harness: one runtime update of a backend (checkBackendPair and below) against a model of
// HAProxy's server table fed by the very command strings sent to the admin socket.

import (
	"errors"
	"strconv"
	"strings"
	"time"

	hatypes "github.com/jcmoraisjr/haproxy-ingress/pkg/haproxy/types"
	"github.com/jcmoraisjr/haproxy-ingress/pkg/haproxy/socket"
	"github.com/jcmoraisjr/haproxy-ingress/pkg/types"
	nd "github.com/jcmoraisjr/haproxy-ingress/pkg/zzverifnd"
)

type zzLogger struct{}

func (zzLogger) InfoV(v int, msg string, args ...interface{}) {}
func (zzLogger) Info(msg string, args ...interface{})         {}
func (zzLogger) Warn(msg string, args ...interface{})         {}
func (zzLogger) Error(msg string, args ...interface{})        {}
func (zzLogger) Fatal(msg string, args ...interface{})        {}

type zzMetrics struct{ types.Metrics }

// zzNewDynUpdater builds the updater the way the instance does (newDynUpdater), so that whatever
// the constructor initialises is there.
func zzNewDynUpdater(cfg *config, sock socket.HAProxySocket) *dynUpdater {
	inst := CreateInstance(zzLogger{}, InstanceOptions{Metrics: zzMetrics{}}).(*instance)
	if sock != nil {
		inst.conns.dynUpdate = sock
	}
	if cfg != nil {
		inst.config = cfg
	} else {
		inst.Config()
	}
	return inst.newDynUpdater()
}

func (zzMetrics) HAProxySetServerResponseTime(time.Duration)  {}
func (zzMetrics) HAProxySetSSLCertResponseTime(time.Duration) {}

// zzSrv is one line of HAProxy's server table.
type zzSrv struct {
	addr   string
	port   string
	state  string // ready | drain | maint
	weight string
}

var zzResponses = []string{"", "IP changed from '10.9.9.9' to 'x' by 'stats socket command'", "no need to change the addr", "No such server."}

// zzSock models the admin socket: every command gets an arbitrary response; a command answered
// with an error text was not applied, the others change the table; a transport error loses the
// rest of the batch.
type zzSock struct {
	socket.HAProxySocket
	table   map[string]*zzSrv
	bad     bool // some command was refused or the transport failed
	sent    int
	budget  int
	sslcmds []string
}

func (s *zzSock) Send(observer func(time.Duration), command ...string) ([]string, error) {
	if s.budget > 0 && nd.Bool("sock.error") {
		s.budget--
		s.bad = true
		return nil, errors.New("broken pipe")
	}
	out := make([]string, len(command))
	for i, c := range command {
		s.sent++
		// at most `budget` commands get a non-empty response (informational or refusing)
		r := 0
		if s.budget > 0 {
			r = nd.Choice("sock.response", len(zzResponses))
			if r != 0 {
				s.budget--
			}
		}
		out[i] = zzResponses[r]
		if strings.HasPrefix(c, "set ssl cert") || strings.HasPrefix(c, "commit ssl cert") {
			s.sslcmds = append(s.sslcmds, c)
			continue
		}
		if r == 3 {
			s.bad = true
			continue
		}
		// set server <backend>/<server> <what> ...
		f := strings.Fields(c)
		nd.Assert(len(f) >= 5 && f[0] == "set" && f[1] == "server", "well-formed-command")
		name := f[2][strings.Index(f[2], "/")+1:]
		srv := s.table[name]
		if srv == nil {
			// HAProxy answers "No such server." and changes nothing; the response above said ok,
			// so the update believes in a server that does not exist
			nd.Assert(false, "command-names-existing-server")
			continue
		}
		switch f[3] {
		case "addr":
			srv.addr = f[4]
			if len(f) >= 7 && f[5] == "port" {
				srv.port = f[6]
			}
		case "state":
			srv.state = f[4]
		case "weight":
			srv.weight = f[4]
		}
	}
	return out, nil
}

var zzPool = []string{"10.0.0.1", "10.0.0.2", "10.0.0.3", "10.0.0.4"}

// which dimensions are symbolic in this run (harness parameters; the others are fixed)
func zzDim(name string) bool { return nd.Param(name, 0) == 1 }

func zzWeight(name string) int {
	if zzDim("WEIGHTS") {
		return nd.Int(name, 0, 2)
	}
	return 1
}

func zzLabel(name string) string {
	if zzDim("LABELS") && nd.Bool(name) {
		return "green"
	}
	return ""
}

func zzCookie(name string) string {
	if zzDim("COOKIES") {
		return []string{"c1", "c2"}[nd.Choice(name, 2)]
	}
	return "c1"
}

func zzPoolSize() int { return nd.Param("POOL", 3) }

// zzLoad is the server table HAProxy builds when it loads a backend section written from eps
// (template: `server NAME IP:PORT [disabled] weight W ...`).
func zzLoad(eps []*hatypes.Endpoint) map[string]*zzSrv {
	t := map[string]*zzSrv{}
	for _, ep := range eps {
		srv := &zzSrv{addr: ep.IP, port: strconv.Itoa(ep.Port), weight: strconv.Itoa(ep.Weight), state: "ready"}
		if !ep.Enabled {
			srv.state = "maint"
		}
		t[ep.Name] = srv
	}
	return t
}

// zzSameServing: the running server behaves as the loaded one would.
func zzSameServing(run, load *zzSrv) bool {
	if load.state == "maint" {
		return run.state == "maint"
	}
	if run.state == "maint" {
		return false
	}
	if run.addr != load.addr || run.port != load.port || run.weight != load.weight {
		return false
	}
	// weight 0 takes no new traffic whether ready or drain; a positive weight must be ready
	return load.weight == "0" || run.state == "ready"
}

func zzBuildOld(n int) (*hatypes.Backend, []int) {
	b := hatypes.CreateBackends(0).AcquireBackend("default", "app", "8080")
	b.Dynamic.DynUpdate = true
	used := []int{}
	for i := 0; i < n; i++ {
		if nd.Bool("old.enabled") {
			k := nd.Choice("old.target", zzPoolSize())
			for _, u := range used {
				nd.Assume(u != k) // the converter de-duplicates targets (AcquireEndpoint)
			}
			used = append(used, k)
			ep := b.AddEndpoint(zzPool[k], 8080, "")
			ep.Weight = zzWeight("old.weight")
			ep.Label = zzLabel("old.label")
			ep.CookieValue = zzCookie("old.cookie")
		} else {
			b.AddEmptyEndpoint()
		}
	}
	// slot names left by history: any permutation of the sequence names
	if n >= 2 && zzDim("NAMES") && nd.Bool("old.swapnames") {
		b.Endpoints[0].Name, b.Endpoints[n-1].Name = b.Endpoints[n-1].Name, b.Endpoints[0].Name
	}
	return b, used
}

func zzBuildNew(m int, labels bool) *hatypes.Backend {
	b := hatypes.CreateBackends(0).AcquireBackend("default", "app", "8080")
	b.Dynamic.DynUpdate = true
	used := []int{}
	for i := 0; i < m; i++ {
		k := nd.Choice("new.target", zzPoolSize())
		for _, u := range used {
			nd.Assume(u != k)
		}
		used = append(used, k)
		ep := b.AcquireEndpoint(zzPool[k], 8080, "")
		ep.Weight = zzWeight("new.weight")
		if labels {
			ep.Label = zzLabel("new.label")
		}
		ep.CookieValue = zzCookie("new.cookie")
	}
	return b
}

// VerifC02_BackendPair: when checkBackendPair reports "updated dynamically" the running server
// table equals the one HAProxy would build from the endpoints about to be written; whenever a
// command is refused, the transport fails, slots are missing or a label changes, it reports false.
func VerifC02_BackendPair() {
	maxN := nd.Param("SLOTS", 3)
	n := 1 + nd.Choice("old.slots", maxN)
	old, _ := zzBuildOld(n)
	m := nd.Choice("new.count", maxN+1)
	cur := zzBuildNew(m, true)
	preserve := zzDim("COOKIES") && nd.Bool("cookie.preserve")
	old.Cookie.Preserve, cur.Cookie.Preserve = preserve, preserve
	if zzDim("FLAGS") && !nd.Bool("dynupdate") {
		old.Dynamic.DynUpdate, cur.Dynamic.DynUpdate = false, false
	}

	sock := &zzSock{table: zzLoad(old.Endpoints), budget: nd.Param("FAULTS", 0)}
	oldCookies := map[string]string{}
	oldLabels := map[string]string{}
	for _, ep := range old.Endpoints {
		oldCookies[ep.Name] = ep.CookieValue
		oldLabels[ep.Name] = ep.Label
	}
	d := zzNewDynUpdater(nil, sock)
	updated := d.checkBackendPair(&backendPair{old: old, cur: cur})

	if sock.bad {
		nd.Assert(!updated, "refused-command-forces-reload")
		nd.Reach("fault")
	}
	if m > n {
		nd.Assert(!updated, "missing-slots-force-reload")
	}
	if updated {
		want := zzLoad(cur.Endpoints)
		nd.Assert(len(want) == len(cur.Endpoints), "server-names-unique")
		nd.Assert(len(want) == len(sock.table), "same-server-set")
		for name, load := range want {
			run := sock.table[name]
			nd.Assert(run != nil, "server-exists-in-haproxy")
			nd.Assert(zzSameServing(run, load), "running-state-equals-written-config")
		}
		for _, ep := range cur.Endpoints {
			// a use-server label cannot be changed at run time
			nd.Assert(ep.Label == oldLabels[ep.Name], "label-change-forces-reload")
			if preserve && ep.Enabled {
				nd.Assert(ep.CookieValue == oldCookies[ep.Name], "preserved-cookie-unchanged")
			}
		}
		nd.Reach("dynamic")
	} else {
		nd.Reach("reload")
	}
	nd.Reach("end")
}
