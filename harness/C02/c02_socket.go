package socket

// C02 harness, socket layer: runtime commands reach the HAProxy instance that is current when they
// are sent, and a reported success carries the answer of every command.

import (
	"bufio"
	"errors"
	"io"
	"net"
	"os"
	"strings"
	"sync"
	"time"

	nd "github.com/jcmoraisjr/haproxy-ingress/pkg/zzverifnd"
)

type zzRecv struct {
	gen int
	cmd string
}

// zzBeh is how HAProxy treats the n-th command it receives.
type zzBeh struct {
	silent  bool   // received, never answered: the client runs into its deadline
	payload string // answer otherwise
}

// zzHA is a sequence of HAProxy processes sharing one admin socket address. A reload starts a new
// process that takes over the listening address; the old one keeps serving the connections it has
// already accepted (soft stop).
type zzHA struct {
	mu       sync.Mutex
	addr     string
	cur      int
	down     bool // nobody is listening (the window during a reload)
	script   []zzBeh
	received []zzRecv
	ln       net.Listener // native run
}

var zzHAProxy *zzHA

func (h *zzHA) receive(gen int, cmd string) zzBeh {
	h.mu.Lock()
	defer h.mu.Unlock()
	n := len(h.received)
	h.received = append(h.received, zzRecv{gen, cmd})
	if n < len(h.script) {
		return h.script[n]
	}
	return zzBeh{}
}

// ---- symbolic run: net.Dial is replaced by zzDial, the connection is an in-memory object

type zzConn struct {
	net.Conn
	h           *zzHA
	gen         int
	interactive bool
	closed      bool
	pending     string
	silent      bool
	answered    bool
}

func zzDial(network, address string) (net.Conn, error) {
	h := zzHAProxy
	if h.down || address != h.addr {
		return nil, errors.New("connect: connection refused")
	}
	return &zzConn{h: h, gen: h.cur}, nil
}

func (c *zzConn) Write(b []byte) (int, error) {
	if c.closed {
		return 0, errors.New("use of closed connection")
	}
	cmd := strings.TrimSuffix(string(b), "\n")
	c.silent, c.answered = false, false
	if cmd == "prompt" {
		c.interactive = true
		c.pending = "\n> "
		return len(b), nil
	}
	beh := c.h.receive(c.gen, cmd)
	if beh.silent {
		c.silent = true
		return len(b), nil
	}
	if c.interactive {
		c.pending = beh.payload + "\n\n> "
	} else {
		c.pending = beh.payload + "\n"
	}
	return len(b), nil
}

func (c *zzConn) Read(b []byte) (int, error) {
	if c.closed {
		return 0, errors.New("use of closed connection")
	}
	if c.silent {
		return 0, errors.New("i/o timeout")
	}
	if c.pending == "" {
		// non interactive: HAProxy closes after the answer
		return 0, io.EOF
	}
	n := copy(b, c.pending)
	c.pending = c.pending[n:]
	return n, nil
}

func (c *zzConn) Close() error {
	c.closed = true
	return nil
}

func (c *zzConn) SetDeadline(t time.Time) error { return nil }

// ---- native run: a real unix socket, one accept loop per process

func (h *zzHA) start() {
	if nd.Symbolic() {
		return
	}
	os.Remove(h.addr)
	ln, err := net.Listen("unix", h.addr)
	if err != nil {
		panic(err)
	}
	h.ln = ln
	gen := h.cur
	go func() {
		for {
			c, err := ln.Accept()
			if err != nil {
				return
			}
			go h.serve(gen, c)
		}
	}()
}

func (h *zzHA) stopListening() {
	if !nd.Symbolic() && h.ln != nil {
		h.ln.Close()
		h.ln = nil
	}
}

func (h *zzHA) serve(gen int, c net.Conn) {
	defer c.Close()
	r := bufio.NewReader(c)
	interactive := false
	for {
		line, err := r.ReadString('\n')
		if err != nil {
			return
		}
		cmd := strings.TrimSuffix(line, "\n")
		if cmd == "prompt" {
			interactive = true
			c.Write([]byte("\n> "))
			continue
		}
		beh := h.receive(gen, cmd)
		if beh.silent {
			continue
		}
		if interactive {
			c.Write([]byte(beh.payload + "\n\n> "))
		} else {
			c.Write([]byte(beh.payload + "\n"))
			return
		}
	}
}

// reload: the new process takes the address over, optionally leaving a window with no listener
func (h *zzHA) reload() {
	h.stopListening()
	h.cur++
	h.start()
}

// VerifC02_Socket: SENDS batches of 1..2 runtime commands go through the dynamic-update socket
// (keepalive off), with a reload of HAProxy possibly happening between two batches and every
// command either answered (one of 3 texts) or left unanswered. Every command of a batch is
// received by the process that was current when the batch was sent - never by an older one - and a
// batch that reports success returns the answer of each of its commands, in order.
func VerifC02_Socket() {
	h := &zzHA{addr: "/zzverif/admin.sock"}
	if !nd.Symbolic() {
		dir, err := os.MkdirTemp("", "zzverif-sock-")
		if err != nil {
			panic(err)
		}
		defer os.RemoveAll(dir)
		h.addr = dir + "/admin.sock"
	}
	zzHAProxy = h
	sends := nd.Param("SENDS", 2)
	payloads := []string{"", "ok", "No such server."}
	type plan struct {
		cmds   []string
		reload bool
		down   bool
	}
	var plans []plan
	names := []string{"set server b/s1 state ready", "set server b/s2 addr 10.0.0.2 port 8080", "set server b/s3 weight 1", "set server b/s4 state maint", "show info", "set server b/s6 state drain"}
	k := 0
	for i := 0; i < sends; i++ {
		p := plan{reload: i > 0 && nd.Bool("reload"), down: nd.Bool("listener.down")}
		n := 1 + nd.Choice("commands", 2)
		for j := 0; j < n; j++ {
			p.cmds = append(p.cmds, names[k%len(names)])
			k++
			beh := zzBeh{silent: nd.Bool("unanswered")}
			if !beh.silent {
				beh.payload = payloads[nd.Choice("payload", len(payloads))]
			}
			h.script = append(h.script, beh)
		}
		plans = append(plans, p)
	}
	h.start()
	defer h.stopListening()
	s := newSocket(h.addr, false)
	s.timeout = 150 * time.Millisecond

	for _, p := range plans {
		if p.reload {
			h.reload()
		}
		if p.down {
			h.down = true
			h.stopListening()
		}
		before := len(h.received)
		gen := h.cur
		msg, err := s.Send(nil, p.cmds...)
		if p.down {
			h.down = false
			h.start()
			nd.Assert(err != nil, "no-listener-is-an-error")
		}
		h.mu.Lock()
		got := append([]zzRecv{}, h.received[before:]...)
		// a command HAProxy never saw consumes no script entry: keep script and plan aligned
		for len(h.received) < before+len(p.cmds) {
			h.received = append(h.received, zzRecv{gen: -1})
		}
		h.mu.Unlock()
		for _, r := range got {
			nd.Assert(r.gen == gen, "commands-reach-the-current-instance")
		}
		if err == nil {
			nd.Assert(len(got) == len(p.cmds) && len(msg) == len(p.cmds), "success-means-every-command-was-received")
			for j := range p.cmds {
				nd.Assert(got[j].cmd == p.cmds[j], "commands-received-in-order")
				nd.Assert(!h.script[before+j].silent && msg[j] == h.script[before+j].payload, "success-returns-each-answer")
			}
			nd.Reach("sent")
		} else {
			nd.Assert(len(msg) < len(p.cmds), "failure-returns-partial-answers-only")
			nd.Reach("failed")
		}
	}
	nd.Reach("end")
}
