package haproxy

// C02 / C15 harness: certificate rotation over several hosts in one update, through
// newDynUpdater().update().

import (
	"errors"
	"strings"
	"time"

	"github.com/jcmoraisjr/haproxy-ingress/pkg/haproxy/socket"
	nd "github.com/jcmoraisjr/haproxy-ingress/pkg/zzverifnd"
)

// zzRotSock is HAProxy's certificate store: file -> content hash, loaded from disk at the last
// reload and replaced by an acknowledged `set ssl cert` + `commit ssl cert` of that file.
type zzRotSock struct {
	socket.HAProxySocket
	loaded  map[string]string
	onDisk  map[string]string
	staged  map[string]string
	sent    int
	refused bool
}

func (s *zzRotSock) Send(observer func(time.Duration), command ...string) ([]string, error) {
	if nd.Bool("sock.error") {
		s.refused = true
		return nil, errors.New("broken pipe")
	}
	out := make([]string, len(command))
	for i, c := range command {
		s.sent++
		switch {
		case strings.HasPrefix(c, "set ssl cert "):
			rest := strings.TrimPrefix(c, "set ssl cert ")
			file := rest[:strings.Index(rest, " ")]
			s.staged[file] = strings.TrimSuffix(rest[strings.Index(rest, "\n")+1:], "\n")
			out[i] = "Transaction created for certificate " + file + "!\n"
		case strings.HasPrefix(c, "commit ssl cert "):
			file := strings.TrimPrefix(c, "commit ssl cert ")
			if nd.Bool("commit.refused") {
				s.refused = true
				out[i] = "Can't commit " + file + "!\n"
				continue
			}
			if content, ok := s.staged[file]; ok {
				s.loaded[file] = content
			}
			out[i] = "Committing " + file + "\nSuccess!\n"
		default:
			out[i] = "Unknown command"
		}
	}
	return out, nil
}

var zzRotFiles = []string{"/c/a.pem", "/c/b.pem", "/c/c.pem"}
var zzRotHashes = []string{"h1", "h2", "h3"}

// VerifC02_CertRotation: HOSTS hosts with a certificate file each (files possibly shared), loaded
// by HAProxy; then any subset of the Secrets gets new content (possibly byte-identical between
// distinct files) and the hosts using them are rebuilt. If the update is applied without a reload,
// HAProxy's store holds, for every host, the content its file has on disk now.
func VerifC02_CertRotation() {
	n := nd.Param("HOSTS", 2)
	inst := CreateInstance(zzLogger{}, InstanceOptions{Metrics: zzMetrics{}}).(*instance)
	sock := &zzRotSock{loaded: map[string]string{}, onDisk: map[string]string{}, staged: map[string]string{}}
	inst.conns.dynUpdate = sock
	cfg := inst.Config().(*config)
	cfg.Commit()
	names := []string{"d1.local", "d2.local", "d3.local"}[:n]
	file := make([]string, n)
	for k := range names {
		file[k] = zzRotFiles[nd.Choice("file", len(zzRotFiles))]
	}
	// content of every file when HAProxy was (re)loaded
	for _, f := range zzRotFiles {
		sock.onDisk[f] = zzRotHashes[nd.Choice("old.hash", len(zzRotHashes))]
		sock.loaded[f] = sock.onDisk[f]
	}
	for k, name := range names {
		h := cfg.Hosts().AcquireHost(name)
		h.TLS.TLSFilename, h.TLS.TLSHash = file[k], sock.onDisk[file[k]]
	}
	cfg.Commit()

	// some Secrets are replaced; the converter rebuilds the hosts linked to them (or more)
	for _, f := range zzRotFiles {
		if nd.Bool("rotated") {
			sock.onDisk[f] = zzRotHashes[nd.Choice("new.hash", len(zzRotHashes))]
		}
	}
	readFile = func(name string) ([]byte, error) {
		if c, ok := sock.onDisk[name]; ok {
			return []byte(c), nil
		}
		return nil, errors.New("no such file")
	}
	var dirty []string
	for k, name := range names {
		old := cfg.Hosts().FindHost(name)
		if old.TLS.TLSHash != sock.onDisk[file[k]] || nd.Bool("dirty") {
			dirty = append(dirty, name)
		}
	}
	cfg.Hosts().RemoveAll(dirty)
	for k, name := range names {
		h := cfg.Hosts().AcquireHost(name)
		h.TLS.TLSFilename, h.TLS.TLSHash = file[k], sock.onDisk[file[k]]
	}
	cfg.Shrink()
	d := inst.newDynUpdater()
	updated := d.update()
	if updated {
		nd.Assert(!sock.refused, "refused-command-forces-reload")
		for k, name := range names {
			nd.Record("host " + name + " file " + file[k] + " disk " + sock.onDisk[file[k]] + " running " + sock.loaded[file[k]])
			nd.Assert(sock.loaded[file[k]] == sock.onDisk[file[k]], "running-certificate-equals-file-on-disk")
		}
		nd.Reach("dynamic")
	} else {
		nd.Reach("reload")
	}
	nd.Reach("end")
}
