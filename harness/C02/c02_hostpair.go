package haproxy

// C02 harness (certificates): checkHostPair / execUpdateCert.

import (
	"errors"
	"strings"
	"time"

	hatypes "github.com/jcmoraisjr/haproxy-ingress/pkg/haproxy/types"
	"github.com/jcmoraisjr/haproxy-ingress/pkg/haproxy/socket"
	nd "github.com/jcmoraisjr/haproxy-ingress/pkg/zzverifnd"
)

type zzCertSock struct {
	socket.HAProxySocket
	cmds      []string
	committed []string // file names whose `commit ssl cert` was acknowledged
	mode      int
}

var zzCommitResponses = []string{"Committing /c/a.pem\nSuccess!\n", "", "Can't commit /c/a.pem!\n", "Unknown command"}

func (s *zzCertSock) Send(observer func(time.Duration), command ...string) ([]string, error) {
	if nd.Bool("sock.error") {
		return nil, errors.New("broken pipe")
	}
	out := make([]string, len(command))
	for i, c := range command {
		s.cmds = append(s.cmds, c)
		if strings.HasPrefix(c, "commit ssl cert ") {
			r := zzCommitResponses[nd.Choice("commit.response", len(zzCommitResponses))]
			out[i] = r
			if strings.Contains(r, "Success") {
				s.committed = append(s.committed, strings.TrimPrefix(c, "commit ssl cert "))
			}
		} else {
			out[i] = []string{"Transaction created for certificate /c/a.pem!\n", ""}[nd.Choice("set.response", 2)]
		}
	}
	return out, nil
}

// VerifC02_HostPair: a host pair is reported as dynamically updated only if nothing but the
// certificate content changed and the new content was committed through the socket for exactly
// that file; a failed read, transport error or unacknowledged commit gives a reload.
func VerifC02_HostPair() {
	files := []string{"", "/c/a.pem", "/c/b.pem"}
	hashes := []string{"h1", "h2"}
	old := &hatypes.Host{Hostname: "d1.local"}
	cur := &hatypes.Host{Hostname: "d1.local"}
	old.TLS.TLSFilename = files[nd.Choice("old.file", 3)]
	cur.TLS.TLSFilename = files[nd.Choice("cur.file", 3)]
	old.TLS.TLSHash = hashes[nd.Choice("old.hash", 2)]
	cur.TLS.TLSHash = hashes[nd.Choice("cur.hash", 2)]
	old.TLS.TLSCommonName, cur.TLS.TLSCommonName = "cn1", []string{"cn1", "cn2"}[nd.Choice("cur.cn", 2)]
	otherDiff := nd.Bool("other.diff")
	if otherDiff {
		cur.TLS.CAFilename = "/c/ca.pem"
	}
	readFails := nd.Bool("read.fails")
	readFile = func(name string) ([]byte, error) {
		if readFails {
			return nil, errors.New("no such file")
		}
		return []byte("CRT\n\nKEY\n"), nil
	}
	sock := &zzCertSock{}
	d := zzNewDynUpdater(nil, sock)
	updated := d.checkHostPair(&hostPair{old: old, cur: cur})

	fileChanged := old.TLS.TLSFilename != cur.TLS.TLSFilename
	hashChanged := old.TLS.TLSHash != cur.TLS.TLSHash
	if updated {
		nd.Assert(!otherDiff && !fileChanged, "only-certificate-content-may-differ")
		if hashChanged && cur.TLS.TLSFilename != "" {
			ok := false
			for _, f := range sock.committed {
				if f == cur.TLS.TLSFilename {
					ok = true
				}
			}
			nd.Assert(ok && !readFails, "new-certificate-committed")
			nd.Reach("rotated")
		}
		nd.Reach("dynamic")
	}
	for _, f := range sock.committed {
		nd.Assert(f == cur.TLS.TLSFilename, "commits-only-the-hosts-file")
	}
	if !hashChanged || fileChanged && cur.TLS.TLSFilename == "" {
		nd.Assert(len(sock.cmds) == 0 || hashChanged, "no-command-without-rotation")
	}
	nd.Reach("end")
}
