package sym

import (
	"fmt"
	"go/types"
	"os"
	"strings"

	"golang.org/x/tools/go/packages"
	"golang.org/x/tools/go/ssa"
	"golang.org/x/tools/go/ssa/ssautil"
)

// Program is the loaded SSA form of /repo plus the overlaid harness files.
type Program struct {
	Prog  *ssa.Program
	Pkgs  map[string]*ssa.Package
	Roots []*packages.Package

	InitAllow   []string // package path prefixes whose initialisers are run
	GlobalAllow map[string]bool
}

// Packages whose initialisers are interpreted. Everything else keeps zero globals and a
// read of such a global aborts the path as unsupported.
var defaultInitAllow = []string{
	"github.com/jcmoraisjr/haproxy-ingress/",
	"strings", "strconv", "sort", "unicode", "unicode/utf8", "container/list",
	"time", "bytes", "path", "slices", "maps", "cmp", "io",
	"k8s.io/apimachinery/pkg/labels", "k8s.io/apimachinery/pkg/selection",
	"k8s.io/apimachinery/pkg/util/validation", "k8s.io/apimachinery/pkg/util/validation/field",
	"k8s.io/apimachinery/pkg/util/sets", "k8s.io/apimachinery/pkg/api/errors",
	"sigs.k8s.io/gateway-api/apis/v1", "sigs.k8s.io/gateway-api/apis/v1alpha2", "sigs.k8s.io/gateway-api/apis/v1beta1",
}

// Packages of the module whose initialisers are not run (template function maps, metrics
// registries): their functions are outside every harness or stubbed.
var initDeny = map[string]bool{
	"github.com/jcmoraisjr/haproxy-ingress/pkg/haproxy/template": true,
}

func (p *Program) initAllowed(path string) bool {
	if initDeny[path] {
		return false
	}
	for _, a := range p.InitAllow {
		if strings.HasSuffix(a, "/") {
			if strings.HasPrefix(path, a) {
				return true
			}
		} else if path == a {
			return true
		}
	}
	return false
}

func (p *Program) globalAllowed(g *ssa.Global) bool {
	if strings.HasPrefix(g.Name(), "init$guard") {
		return true
	}
	return p.GlobalAllow[g.String()]
}

// Load type-checks and builds SSA for the given package patterns under dir, with overlay files.
func Load(dir string, patterns []string, overlay map[string][]byte) (*Program, error) {
	cfg := &packages.Config{
		Mode: packages.NeedName | packages.NeedFiles | packages.NeedCompiledGoFiles | packages.NeedImports |
			packages.NeedDeps | packages.NeedTypes | packages.NeedSyntax | packages.NeedTypesInfo | packages.NeedTypesSizes | packages.NeedModule,
		Dir:     dir,
		Overlay: overlay,
		Env:     append(os.Environ(), "GOFLAGS=-mod=mod", "GOPROXY=off", "GOSUMDB=off", "GOTOOLCHAIN=local", "CGO_ENABLED=0"),
	}
	initial, err := packages.Load(cfg, patterns...)
	if err != nil {
		return nil, err
	}
	var errs []string
	packages.Visit(initial, nil, func(p *packages.Package) {
		for _, e := range p.Errors {
			errs = append(errs, e.Error())
		}
	})
	if len(errs) > 0 {
		if len(errs) > 20 {
			errs = errs[:20]
		}
		return nil, fmt.Errorf("package load errors:\n%s", strings.Join(errs, "\n"))
	}
	prog, pkgs := ssautil.AllPackages(initial, ssa.InstantiateGenerics)
	prog.Build()
	P := &Program{Prog: prog, Pkgs: map[string]*ssa.Package{}, Roots: initial, InitAllow: defaultInitAllow, GlobalAllow: map[string]bool{}}
	for _, p := range prog.AllPackages() {
		P.Pkgs[p.Pkg.Path()] = p
	}
	_ = pkgs
	rt := prog.ImportedPackage("runtime")
	if rt == nil {
		return nil, fmt.Errorf("runtime package not loaded")
	}
	rtErrorType = rt.Type("errorString").Object().Type()
	return P, nil
}

// FuncByName finds pkgpath.Name.
func (p *Program) FuncByName(pkgPath, name string) *ssa.Function {
	pkg := p.Pkgs[pkgPath]
	if pkg == nil {
		return nil
	}
	return pkg.Func(name)
}

var _ = types.Identical
