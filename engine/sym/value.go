package sym

// Value model. Heap shape is always concrete; scalars and string bytes may be symbolic.
//
//   bool, intN, uintN, uintptr, float32, float64, complex*   concrete scalars (Go native)
//   *Sym                       symbolic scalar (bool / bit-vector / float); signedness comes from the static type at the use
//   string                     concrete string
//   sstr                       string of concrete length with at least one symbolic byte
//   *value                     pointer
//   []value                    slice
//   array, structure, tuple    aggregates
//   iface                      interface value
//   *mapv                      map (insertion ordered => deterministic re-execution)
//   *ssa.Function, *ssa.Builtin, *closure   functions
//   *native                    opaque native object (regexp, ...)
//   rtype                      reflect.Type

import (
	"fmt"
	"go/types"
	"strings"

	"golang.org/x/tools/go/ssa"
)

type value = interface{}

type tuple []value
type array []value
type structure []value

type iface struct {
	t types.Type
	v value
}

type closure struct {
	Fn  *ssa.Function
	Env []value
}

type bad struct{}

type rtype struct{ t types.Type }

// Sym is a symbolic scalar.
type Sym struct{ t *Term }

func (s *Sym) String() string { return "sym:" + s.t.ref() }

// sstr is a string with symbolic bytes; each element is a byte or a *Sym of sort BV8.
type sstr []value

// native wraps an opaque native Go object.
type native struct{ v interface{} }

// mapv is an insertion-ordered map.
type mapv struct {
	keyT    types.Type
	entries []*mentry
	idx     map[interface{}]*mentry // concrete keys only
	nsym    int                     // number of live entries with symbolic keys
	n       int
}

type mentry struct {
	key     value
	val     value
	deleted bool
	symKey  bool
}

func newMap(kt types.Type) *mapv {
	return &mapv{keyT: kt, idx: map[interface{}]*mentry{}}
}

func (m *mapv) len() int {
	if m == nil {
		return 0
	}
	return m.n
}

// keyRepr returns a Go-comparable representation of a key and whether it is fully concrete.
func keyRepr(v value) (interface{}, bool) {
	switch x := v.(type) {
	case bool, int, int8, int16, int32, int64, uint, uint8, uint16, uint32, uint64, uintptr, float32, float64, string, *value, *mapv, complex64, complex128:
		return x, true
	case *Sym, sstr:
		return nil, false
	case structure:
		var sb strings.Builder
		sb.WriteString("S{")
		for _, f := range x {
			r, ok := keyRepr(f)
			if !ok {
				return nil, false
			}
			fmt.Fprintf(&sb, "%T:%v;", r, r)
		}
		sb.WriteString("}")
		return sb.String(), true
	case array:
		var sb strings.Builder
		sb.WriteString("A[")
		for _, f := range x {
			r, ok := keyRepr(f)
			if !ok {
				return nil, false
			}
			fmt.Fprintf(&sb, "%T:%v;", r, r)
		}
		sb.WriteString("]")
		return sb.String(), true
	case iface:
		if x.t == nil {
			return "I<nil>", true
		}
		r, ok := keyRepr(x.v)
		if !ok {
			return nil, false
		}
		return fmt.Sprintf("I<%s>%T:%v", x.t.String(), r, r), true
	case rtype:
		return "rtype:" + x.t.String(), true
	case *ssa.Function:
		return x, true
	case *native:
		return x, true
	}
	panic(unsupported{fmt.Sprintf("map key of dynamic type %T", v)})
}

func isSymbolic(v value) bool {
	switch x := v.(type) {
	case *Sym, sstr:
		return true
	case structure:
		for _, f := range x {
			if isSymbolic(f) {
				return true
			}
		}
	case array:
		for _, f := range x {
			if isSymbolic(f) {
				return true
			}
		}
	case iface:
		return isSymbolic(x.v)
	}
	return false
}

// load returns a copy of the value of type T stored at addr.
func load(T types.Type, addr *value) value {
	return copyVal(*addr)
}

// copyVal copies aggregates (structs and arrays have value semantics).
func copyVal(v value) value {
	switch x := v.(type) {
	case structure:
		a := make(structure, len(x))
		for i := range x {
			a[i] = copyVal(x[i])
		}
		return a
	case array:
		a := make(array, len(x))
		for i := range x {
			a[i] = copyVal(x[i])
		}
		return a
	}
	return v
}

// store stores v into *addr preserving the identity of aggregate cells
// (pointers to fields must stay valid).
func store(addr *value, v value) {
	switch rhs := v.(type) {
	case structure:
		lhs, ok := (*addr).(structure)
		if !ok || len(lhs) != len(rhs) {
			*addr = copyVal(v)
			return
		}
		for i := range lhs {
			store(&lhs[i], rhs[i])
		}
	case array:
		lhs, ok := (*addr).(array)
		if !ok || len(lhs) != len(rhs) {
			*addr = copyVal(v)
			return
		}
		for i := range lhs {
			store(&lhs[i], rhs[i])
		}
	default:
		*addr = v
	}
}

// nil-tolerant variant of types.Identical.
func sameType(x, y types.Type) bool {
	if x == nil {
		return y == nil
	}
	return y != nil && types.Identical(x, y)
}

func toString(v value) string {
	var b strings.Builder
	writeValue(&b, v, 0)
	return b.String()
}

func writeValue(buf *strings.Builder, v value, depth int) {
	if depth > 6 {
		buf.WriteString("...")
		return
	}
	switch v := v.(type) {
	case nil, bool, int, int8, int16, int32, int64, uint, uint8, uint16, uint32, uint64, uintptr, float32, float64, complex64, complex128:
		fmt.Fprintf(buf, "%v", v)
	case string:
		fmt.Fprintf(buf, "%q", v)
	case *Sym:
		buf.WriteString(v.String())
	case sstr:
		buf.WriteString("sstr[")
		for i, e := range v {
			if i > 0 {
				buf.WriteByte(' ')
			}
			if b, ok := e.(byte); ok {
				fmt.Fprintf(buf, "%q", rune(b))
			} else {
				writeValue(buf, e, depth+1)
			}
		}
		buf.WriteString("]")
	case *mapv:
		buf.WriteString("map[")
		if v != nil {
			for i, e := range v.entries {
				if e.deleted {
					continue
				}
				if i > 0 {
					buf.WriteByte(' ')
				}
				writeValue(buf, e.key, depth+1)
				buf.WriteString(":")
				writeValue(buf, e.val, depth+1)
			}
		}
		buf.WriteString("]")
	case *value:
		if v == nil {
			buf.WriteString("<nil>")
		} else {
			fmt.Fprintf(buf, "&")
			writeValue(buf, *v, depth+1)
		}
	case iface:
		if v.t == nil {
			buf.WriteString("nil")
			return
		}
		fmt.Fprintf(buf, "(%s, ", v.t)
		writeValue(buf, v.v, depth+1)
		buf.WriteString(")")
	case structure:
		buf.WriteString("{")
		for i, e := range v {
			if i > 0 {
				buf.WriteString(" ")
			}
			writeValue(buf, e, depth+1)
		}
		buf.WriteString("}")
	case array:
		buf.WriteString("[")
		for i, e := range v {
			if i > 0 {
				buf.WriteString(" ")
			}
			writeValue(buf, e, depth+1)
		}
		buf.WriteString("]")
	case []value:
		buf.WriteString("[")
		for i, e := range v {
			if i > 0 {
				buf.WriteString(" ")
			}
			writeValue(buf, e, depth+1)
		}
		buf.WriteString("]")
	case *ssa.Function:
		if v == nil {
			buf.WriteString("func(nil)")
		} else {
			buf.WriteString("func:" + v.String())
		}
	case *ssa.Builtin, *closure:
		fmt.Fprintf(buf, "%p", v)
	case rtype:
		buf.WriteString(v.t.String())
	case tuple:
		buf.WriteString("(")
		for i, e := range v {
			if i > 0 {
				buf.WriteString(", ")
			}
			writeValue(buf, e, depth+1)
		}
		buf.WriteString(")")
	default:
		fmt.Fprintf(buf, "<%T>", v)
	}
}
