package sym

import (
	"fmt"
	"go/types"

	"golang.org/x/tools/go/ssa"
)

// extDeepEqual models reflect.DeepEqual structurally over interpreter values.
// The result may be symbolic (conjunction of scalar equalities).
func extDeepEqual(m *Machine, fr *frame, args []value) value {
	x, y := args[0].(iface), args[1].(iface)
	if x.t == nil || y.t == nil {
		return x.t == nil && y.t == nil
	}
	if !types.Identical(x.t, y.t) {
		return false
	}
	return m.deepEq(x.v, y.v, map[[2]*value]bool{}, 0)
}

func (m *Machine) deepEq(x, y value, seen map[[2]*value]bool, depth int) value {
	if depth > 200 {
		panic(unsupported{"DeepEqual recursion too deep"})
	}
	switch xv := x.(type) {
	case *value:
		yv, ok := y.(*value)
		if !ok {
			return false
		}
		if xv == yv {
			return true
		}
		if xv == nil || yv == nil {
			return false
		}
		k := [2]*value{xv, yv}
		if seen[k] {
			return true
		}
		seen[k] = true
		return m.deepEq(*xv, *yv, seen, depth+1)
	case []value:
		yv, ok := y.([]value)
		if !ok {
			return false
		}
		if (xv == nil) != (yv == nil) {
			return false
		}
		if len(xv) != len(yv) {
			return false
		}
		if len(xv) > 0 && &xv[0] == &yv[0] {
			return true
		}
		var acc value = true
		for i := range xv {
			acc = m.boolAnd(acc, m.deepEq(xv[i], yv[i], seen, depth+1))
			if acc == false {
				return false
			}
		}
		return acc
	case structure:
		yv := y.(structure)
		var acc value = true
		for i := range xv {
			acc = m.boolAnd(acc, m.deepEq(xv[i], yv[i], seen, depth+1))
			if acc == false {
				return false
			}
		}
		return acc
	case array:
		yv := y.(array)
		var acc value = true
		for i := range xv {
			acc = m.boolAnd(acc, m.deepEq(xv[i], yv[i], seen, depth+1))
			if acc == false {
				return false
			}
		}
		return acc
	case iface:
		yv := y.(iface)
		if xv.t == nil || yv.t == nil {
			return xv.t == nil && yv.t == nil
		}
		if !types.Identical(xv.t, yv.t) {
			return false
		}
		return m.deepEq(xv.v, yv.v, seen, depth+1)
	case *mapv:
		yv := y.(*mapv)
		if (xv == nil) != (yv == nil) {
			return false
		}
		if xv.len() != yv.len() {
			return false
		}
		if xv == yv {
			return true
		}
		var acc value = true
		for _, e := range xv.entries {
			if e.deleted {
				continue
			}
			o := m.mapFind(yv, e.key, false)
			if o == nil {
				return false
			}
			acc = m.boolAnd(acc, m.deepEq(e.val, o.val, seen, depth+1))
			if acc == false {
				return false
			}
		}
		return acc
	case *ssa.Function, *closure, *ssa.Builtin:
		return funcIsNil(x) && funcIsNil(y)
	case *native:
		yv, _ := y.(*native)
		return xv == yv
	case string, sstr:
		return m.strEq(x, y)
	case *Sym:
		return m.eqv(nil, x, y)
	case rtype:
		return types.Identical(xv.t, y.(rtype).t)
	}
	if _, ok := y.(*Sym); ok {
		return m.eqv(nil, x, y)
	}
	switch x.(type) {
	case bool, int, int8, int16, int32, int64, uint, uint8, uint16, uint32, uint64, uintptr, float32, float64, complex64, complex128:
		return x == y
	}
	panic(unsupported{fmt.Sprintf("DeepEqual of %T", x)})
}

// rtypeMethod implements the few reflect.Type methods used by the code under test.
func (m *Machine) rtypeMethod(name string, rt rtype, args []value) value {
	if v, ok := m.rtypeMethodX(name, rt, args); ok {
		return v
	}
	switch name {
	case "String":
		return rt.t.String()
	case "Name":
		if n, ok := rt.t.(*types.Named); ok {
			return n.Obj().Name()
		}
		return ""
	}
	panic(unsupported{"reflect.Type." + name})
}
