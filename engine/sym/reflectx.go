package sym

// A small model of package reflect over interpreter values: just what createPathConfig and
// newGatewaySource use (TypeOf/NumField/Field, ValueOf/IsNil/Elem/FieldByName/Field/Addr/Interface/Kind).

import (
	"fmt"
	"go/types"
)

type rval struct {
	v    value
	t    types.Type
	addr *value
}

func mkRV(r rval) value {
	// reflect.Value is a 3-word struct; the payload rides in the first word
	return structure{&native{v: r}, nil, uintptr(0)}
}

func rvOf(v value) rval {
	st, ok := v.(structure)
	if !ok || len(st) == 0 {
		panic(unsupported{"reflect.Value of unknown shape"})
	}
	n, ok := st[0].(*native)
	if !ok {
		return rval{} // zero Value
	}
	return n.v.(rval)
}

func structFieldIndex(t types.Type, name string) (int, *types.Struct) {
	st, ok := t.Underlying().(*types.Struct)
	if !ok {
		return -1, nil
	}
	for i := 0; i < st.NumFields(); i++ {
		if st.Field(i).Name() == name {
			return i, st
		}
	}
	return -1, st
}

func (m *Machine) rvField(r rval, i int, st *types.Struct) value {
	s := r.v.(structure)
	out := rval{v: s[i], t: st.Field(i).Type()}
	if r.addr != nil {
		out.addr = &(*r.addr).(structure)[i]
	}
	return mkRV(out)
}

func init() {
	for k, v := range map[string]externalFn{
		"reflect.ValueOf": func(m *Machine, fr *frame, a []value) value {
			itf := a[0].(iface)
			if itf.t == nil {
				return structure{(*value)(nil), nil, uintptr(0)}
			}
			return mkRV(rval{v: itf.v, t: itf.t})
		},
		"(reflect.Value).IsValid": func(m *Machine, fr *frame, a []value) value { return rvOf(a[0]).t != nil },
		"(reflect.Value).IsNil": func(m *Machine, fr *frame, a []value) value {
			r := rvOf(a[0])
			switch x := r.v.(type) {
			case *value:
				return x == nil
			case *mapv:
				return x == nil
			case []value:
				return x == nil
			case iface:
				return x.t == nil
			}
			if isFunc(r.v) {
				return funcIsNil(r.v)
			}
			panic(targetPanic{v: runtimeError("reflect: call of reflect.Value.IsNil on non-nillable value")})
		},
		"(reflect.Value).Elem": func(m *Machine, fr *frame, a []value) value {
			r := rvOf(a[0])
			switch x := r.v.(type) {
			case *value:
				if x == nil {
					return structure{(*value)(nil), nil, uintptr(0)}
				}
				return mkRV(rval{v: *x, t: deref(r.t), addr: x})
			case iface:
				if x.t == nil {
					return structure{(*value)(nil), nil, uintptr(0)}
				}
				return mkRV(rval{v: x.v, t: x.t})
			}
			panic(unsupported{fmt.Sprintf("reflect.Value.Elem of %T", r.v)})
		},
		"(reflect.Value).FieldByName": func(m *Machine, fr *frame, a []value) value {
			r := rvOf(a[0])
			i, st := structFieldIndex(r.t, a[1].(string))
			if i < 0 {
				return structure{(*value)(nil), nil, uintptr(0)}
			}
			return m.rvField(r, i, st)
		},
		"(reflect.Value).Field": func(m *Machine, fr *frame, a []value) value {
			r := rvOf(a[0])
			st := r.t.Underlying().(*types.Struct)
			return m.rvField(r, a[1].(int), st)
		},
		"(reflect.Value).NumField": func(m *Machine, fr *frame, a []value) value {
			return rvOf(a[0]).t.Underlying().(*types.Struct).NumFields()
		},
		"(reflect.Value).Addr": func(m *Machine, fr *frame, a []value) value {
			r := rvOf(a[0])
			if r.addr == nil {
				panic(targetPanic{v: runtimeError("reflect.Value.Addr of unaddressable value")})
			}
			return mkRV(rval{v: r.addr, t: types.NewPointer(r.t)})
		},
		"(reflect.Value).Interface": func(m *Machine, fr *frame, a []value) value {
			r := rvOf(a[0])
			if r.t == nil {
				return iface{}
			}
			if _, isIface := r.t.Underlying().(*types.Interface); isIface {
				return r.v
			}
			return iface{t: r.t, v: copyVal(r.v)}
		},
		"(reflect.Value).Type": func(m *Machine, fr *frame, a []value) value {
			return m.reflectType(rvOf(a[0]).t)
		},
		"(reflect.Value).Len": func(m *Machine, fr *frame, a []value) value {
			switch x := rvOf(a[0]).v.(type) {
			case []value:
				return len(x)
			case string:
				return len(x)
			case *mapv:
				return x.len()
			case array:
				return len(x)
			}
			panic(unsupported{"reflect.Value.Len"})
		},
	} {
		externals[k] = v
	}
}

// reflect.Type methods reached through the interface (see prepareCall / rtypeMethod).
func (m *Machine) rtypeMethodX(name string, rt rtype, args []value) (value, bool) {
	switch name {
	case "NumField":
		return rt.t.Underlying().(*types.Struct).NumFields(), true
	case "Field":
		st := rt.t.Underlying().(*types.Struct)
		f := st.Field(args[0].(int))
		// reflect.StructField{Name, PkgPath string; Type Type; Tag StructTag; Offset uintptr; Index []int; Anonymous bool}
		pkg := ""
		if !f.Exported() && f.Pkg() != nil {
			pkg = f.Pkg().Path()
		}
		return structure{f.Name(), pkg, m.reflectType(f.Type()), st.Tag(args[0].(int)), uintptr(0), []value{args[0]}, f.Anonymous()}, true
	case "Kind":
		return uint(kindOf(rt.t)), true
	case "Elem":
		switch u := rt.t.Underlying().(type) {
		case *types.Pointer:
			return m.reflectType(u.Elem()), true
		case *types.Slice:
			return m.reflectType(u.Elem()), true
		case *types.Map:
			return m.reflectType(u.Elem()), true
		}
	}
	return nil, false
}

func kindOf(t types.Type) int {
	switch u := t.Underlying().(type) {
	case *types.Basic:
		switch u.Kind() {
		case types.Bool:
			return 1
		case types.Int:
			return 2
		case types.Int64:
			return 6
		case types.String:
			return 24
		}
	case *types.Struct:
		return 25
	case *types.Pointer:
		return 22
	case *types.Slice:
		return 23
	case *types.Map:
		return 21
	case *types.Interface:
		return 20
	}
	return 0
}
