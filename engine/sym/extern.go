package sym

// Intercepted functions: the nd harness API, and native summaries of library
// functions that cannot be interpreted from SSA (assembly, unsafe, reflection) or that
// would fork needlessly on symbolic bytes. Every name hit in a run is listed in its evidence.

import (
	"fmt"
	"go/token"
	"go/types"
	"math/bits"
	"sort"
	"strconv"
	"strings"
	"time"

	"golang.org/x/tools/go/ssa"
)

type externalFn func(m *Machine, fr *frame, args []value) value

var externals = map[string]externalFn{}

// NDPath is the import path of the harness helper package (exists only in the overlay).
const NDPath = "github.com/jcmoraisjr/haproxy-ingress/pkg/zzverifnd"

func init() {
	nd := func(n string, f externalFn) { externals[NDPath+"."+n] = f }
	nd("Bool", extNDBool)
	nd("Int", extNDInt)
	nd("Int64", extNDInt64)
	nd("Byte", extNDByte)
	nd("String", extNDString)
	nd("Choice", extNDChoice)
	nd("Assume", extNDAssume)
	nd("Assert", extNDAssert)
	nd("Reach", extNDReach)
	nd("Symbolic", func(m *Machine, fr *frame, args []value) value { return true })
	nd("Record", extNDRecord)
	nd("Sleep", extNDSleep)
	nd("MonoNow", extNDMonoNow)
	nd("Param", func(m *Machine, fr *frame, args []value) value {
		if v, ok := m.cfg.Params[args[0].(string)]; ok {
			return v
		}
		return args[1].(int)
	})
	nd("LockHeld", func(m *Machine, fr *frame, args []value) value {
		itf := args[0].(iface)
		p, ok := itf.v.(*value)
		if !ok {
			panic(unsupported{"nd.LockHeld needs a *sync.Mutex"})
		}
		return m.locksHeld[p] > 0
	})
	nd("Note", func(m *Machine, fr *frame, args []value) value { m.note(args[0].(string)); return nil })

	for k, v := range map[string]externalFn{
		// synchronisation
		"(*sync.Mutex).Lock":      extLock,
		"(*sync.Mutex).Unlock":    extUnlock,
		"(*sync.Mutex).TryLock":   func(m *Machine, fr *frame, a []value) value { extLock(m, fr, a); return true },
		"(*sync.RWMutex).Lock":    extLock,
		"(*sync.RWMutex).Unlock":  extUnlock,
		"(*sync.RWMutex).RLock":   extLock,
		"(*sync.RWMutex).RUnlock": extUnlock,
		"(*sync.Once).Do":         extOnceDo,

		// time
		"time.now":         extTimeNow,
		"time.runtimeNano": extRuntimeNano,
		"time.Sleep":       func(m *Machine, fr *frame, a []value) value { return nil },
		// rendering of instants is only ever used for logging here; calendar arithmetic on a
		// symbolic instant would fork thousands of ways
		"(time.Time).String": func(m *Machine, fr *frame, a []value) value {
			m.note("time.Time.String rendered as a placeholder")
			return "<time>"
		},
		"(time.Time).Format": func(m *Machine, fr *frame, a []value) value {
			m.note("time.Time.Format rendered as a placeholder")
			return "<time>"
		},
		"(time.Time).GoString": func(m *Machine, fr *frame, a []value) value { return "<time>" },
		"(time.Duration).String": func(m *Machine, fr *frame, a []value) value {
			if d, ok := a[0].(int64); ok {
				return time.Duration(d).String()
			}
			return "<duration>"
		},
		"runtime.GOROOT": func(m *Machine, fr *frame, a []value) value { return "/goroot" },

		// strings / bytes kernels
		"internal/bytealg.IndexByteString": extIndexByteString,
		"internal/bytealg.IndexByte":       extIndexByte,
		"internal/bytealg.CountString":     extCountString,
		"internal/bytealg.IndexString":     extIndexString,
		"internal/bytealg.MakeNoZero":      extMakeNoZero,
		"internal/stringslite.Index":       extIndexString,
		"internal/stringslite.IndexByte":   extIndexByteString,
		"strings.Index":                    extIndexString,
		"strings.IndexByte":                extIndexByteString,
		"strings.Count":                    extCountString,
		"strings.ToLower":                  extToLower,
		"strings.ToUpper":                  extToUpper,
		"strings.TrimSpace":                extTrimSpace,
		"strings.EqualFold":                extEqualFold,
		"strings.Repeat":                   extRepeat,
		"strings.Compare":                  extStrCompare,
		"(*strings.Builder).copyCheck":     func(m *Machine, fr *frame, a []value) value { return nil },
		"(*strings.Builder).String":        extBuilderString,
		"bytes.Equal":                      extBytesEqual,
		"unicode/utf8.RuneCountInString":   extRuneCountInString,
		"unicode/utf8.DecodeRuneInString":  extDecodeRuneInString,
		"unicode/utf8.ValidString":         func(m *Machine, fr *frame, a []value) value { return true },

		// numbers
		"strconv.Itoa":      extItoa,
		"strconv.Atoi":      extAtoi,
		"strconv.FormatInt": extFormatInt,
		"strconv.ParseInt":  extParseInt,
		"strconv.ParseBool": extParseBool,
		"strconv.Quote":     func(m *Machine, fr *frame, a []value) value { return strconv.Quote(m.concStr(a[0], "strconv.Quote")) },
		"math/bits.Len":     func(m *Machine, fr *frame, a []value) value { return bits.Len(a[0].(uint)) },
		"math/bits.Len64":   func(m *Machine, fr *frame, a []value) value { return bits.Len64(a[0].(uint64)) },
		"math/bits.LeadingZeros64": func(m *Machine, fr *frame, a []value) value {
			return bits.LeadingZeros64(a[0].(uint64))
		},
		"math/bits.TrailingZeros": func(m *Machine, fr *frame, a []value) value { return bits.TrailingZeros(a[0].(uint)) },

		// formatting
		"fmt.Sprintf":  extSprintf,
		"fmt.Errorf":   extErrorf,
		"fmt.Sprint":   extSprint,
		"fmt.Sprintln": extSprint,

		// sorting
		"sort.Slice":       extSortSlice,
		"sort.SliceStable": extSortSlice,
		"sort.Strings":     extSortStrings,
		"sort.Ints":        extSortInts,
		"sort.Sort":        extSortSort,
		"sort.Stable":      extSortSort,
		"slices.Sort":      extSlicesSort,

		// reflection
		"reflect.DeepEqual": extDeepEqual,
	} {
		externals[k] = v
	}
}

// ---- helpers ----

func (m *Machine) concStr(v value, what string) string {
	s, ok := v.(string)
	if !ok {
		panic(unsupported{what + " on a symbolic string"})
	}
	return s
}

func (m *Machine) uniqueName(base string) string {
	k := m.nameCount[base]
	m.nameCount[base] = k + 1
	return fmt.Sprintf("%s#%d", base, k)
}

func sanitizeName(s string) string {
	return strings.Map(func(r rune) rune {
		if r == '|' || r == '\\' || r < 0x20 || r > 0x7e {
			return '_'
		}
		return r
	}, s)
}

// seed gives a freshly created input a model value that satisfies its range assumption,
// so the assumption needs no solver round trip.
func (m *Machine) seed(t *Term, v uint64) {
	if len(m.path) < len(m.prefix) {
		return
	}
	m.activateModel()
	if m.model != nil {
		if _, ok := m.model[t.name]; !ok {
			m.model[t.name] = v
		}
	}
}

func (m *Machine) newInput(base, kind string, sort Sort, bitsN int, signed bool) *Term {
	name := m.uniqueName(sanitizeName(base))
	// the solver-side name carries the sort: one worker's solver sees many paths, and the same
	// input may be created with different widths on different paths
	t := m.ts.Var(fmt.Sprintf("%s!%d.%d", name, sort.K, sort.W), sort)
	m.inputs = append(m.inputs, inputVar{Name: name, Kind: kind, term: t, Bits: bitsN, Signed: signed})
	return t
}

// ---- nd ----

func extNDBool(m *Machine, fr *frame, args []value) value {
	return &Sym{m.newInput(args[0].(string), "bool", BoolSort, 1, false)}
}

func extNDInt(m *Machine, fr *frame, args []value) value {
	lo, hi := int64(args[1].(int)), int64(args[2].(int))
	if lo > hi {
		panic(pathEnd{kind: "assume"})
	}
	if lo == hi {
		// still register the input so that replay vectors are complete
		name := m.uniqueName(sanitizeName(args[0].(string)))
		m.inputs = append(m.inputs, inputVar{Name: name, Kind: "const", cval: lo})
		return int(lo)
	}
	ts := m.ts
	if lo >= 0 {
		w := bits.Len64(uint64(hi))
		v := m.newInput(args[0].(string), "int", BV(w), w, false)
		m.seed(v, uint64(lo))
		if hi != int64(mask(w)) {
			m.assume(ts.BVCmp("bvule", v, ts.BVConst(uint64(hi), w)))
		}
		if lo > 0 {
			m.assume(ts.BVCmp("bvuge", v, ts.BVConst(uint64(lo), w)))
		}
		return &Sym{ts.ZExt(v, 64)}
	}
	v := m.newInput(args[0].(string), "int", BV(64), 64, true)
	m.seed(v, uint64(lo))
	m.assume(ts.BVCmp("bvsle", v, ts.BVConst(uint64(hi), 64)))
	m.assume(ts.BVCmp("bvsge", v, ts.BVConst(uint64(lo), 64)))
	return &Sym{v}
}

func extNDInt64(m *Machine, fr *frame, args []value) value {
	return &Sym{m.newInput(args[0].(string), "int", BV(64), 64, true)}
}

func (m *Machine) constrainAlphabet(b *Term, alphabet string) {
	if alphabet == "" {
		return
	}
	acc := m.ts.False
	for i := 0; i < len(alphabet); i++ {
		if alphabet[i] >= 0x80 {
			panic(unsupported{"non-ASCII alphabet"})
		}
		acc = m.ts.Or(acc, m.ts.Eq(b, m.ts.BVConst(uint64(alphabet[i]), 8)))
	}
	m.assume(acc)
}

func extNDByte(m *Machine, fr *frame, args []value) value {
	alpha := args[1].(string)
	if len(alpha) == 1 {
		name := m.uniqueName(sanitizeName(args[0].(string)))
		m.inputs = append(m.inputs, inputVar{Name: name, Kind: "const", cval: int64(alpha[0])})
		return alpha[0]
	}
	b := m.newInput(args[0].(string), "byte", BV(8), 8, false)
	if alpha != "" {
		m.seed(b, uint64(alpha[0]))
	}
	if alpha == "" {
		// symbolic bytes are ASCII throughout the engine (range-over-string, ToLower, ...)
		m.assume(m.ts.BVCmp("bvult", b, m.ts.BVConst(0x80, 8)))
	}
	m.constrainAlphabet(b, alpha)
	return &Sym{b}
}

func extNDString(m *Machine, fr *frame, args []value) value {
	n := args[1].(int)
	alpha := args[2].(string)
	bs := make([]value, n)
	for i := 0; i < n; i++ {
		bs[i] = extNDByte(m, fr, []value{fmt.Sprintf("%s[%d]", args[0].(string), i), alpha})
	}
	return normStr(bs)
}

func extNDChoice(m *Machine, fr *frame, args []value) value {
	n := args[1].(int)
	k := m.choose(n)
	name := m.uniqueName(sanitizeName(args[0].(string)))
	m.inputs = append(m.inputs, inputVar{Name: name, Kind: "choice", cval: int64(k)})
	return k
}

func extNDAssume(m *Machine, fr *frame, args []value) value {
	m.assume(m.toTerm(args[0]))
	return nil
}

func extNDReach(m *Machine, fr *frame, args []value) value {
	m.events = append(m.events, "reach:"+args[0].(string))
	return nil
}

func extNDRecord(m *Machine, fr *frame, args []value) value {
	m.recorded = append(m.recorded, args[0].(string))
	return nil
}

func extNDAssert(m *Machine, fr *frame, args []value) value {
	id := args[1].(string)
	m.st.Asserts++
	c := m.toTerm(args[0])
	if c.IsConst() {
		if c.val == 1 {
			m.events = append(m.events, "assert:"+id)
			return nil
		}
		m.violation(id, nil, fr)
		panic(pathEnd{kind: "violation", msg: id})
	}
	m.st.AssertQueries++
	neg := m.ts.Not(c)
	r, model := m.checkWithModel(neg)
	switch r {
	case Unsat:
		m.events = append(m.events, "assert:"+id)
		return nil
	case Sat:
		m.violation(id, model, fr)
		if m.cfg.StopAtViolation {
			panic(pathEnd{kind: "violation", msg: id})
		}
		// continue on the side where the assertion holds
		m.assume(c)
		m.events = append(m.events, "assert:"+id)
		return nil
	default:
		// no decision is taken here: the outcome of a timed-out query must not shape the path
		m.inconclusive("solver returned unknown for assertion "+id, fr)
		m.events = append(m.events, "assert:"+id)
		return nil
	}
}

// ---- locks ----

func extLock(m *Machine, fr *frame, args []value) value {
	p := args[0].(*value)
	if m.locksHeld[p] > 0 {
		panic(targetPanic{v: runtimeError("deadlock: mutex locked twice on one path")})
	}
	m.locksHeld[p]++
	return nil
}

func extUnlock(m *Machine, fr *frame, args []value) value {
	p := args[0].(*value)
	if m.locksHeld[p] == 0 {
		panic(targetPanic{v: runtimeError("sync: unlock of unlocked mutex")})
	}
	m.locksHeld[p]--
	return nil
}

func extOnceDo(m *Machine, fr *frame, args []value) value {
	p := args[0].(*value)
	st := (*p).(structure)
	// sync.Once{done atomic.Uint32 / uint32; m Mutex}: use field 0 as the flag whatever its shape
	if fl, ok := st[0].(structure); ok {
		if fl[len(fl)-1] == uint32(1) {
			return nil
		}
		fl[len(fl)-1] = uint32(1)
	} else {
		if st[0] == uint32(1) {
			return nil
		}
		st[0] = uint32(1)
	}
	m.call(fr, token.NoPos, args[1], nil)
	return nil
}

// ---- time ----

// The symbolic clock. Time passes only when the harness says so (nd.Sleep); every reading in
// between returns the same monotonic instant. The first instant of a path is arbitrary.
// The wall clock is arbitrary at every reading (it may jump), within 2020..2033.
func (m *Machine) monoNow() *Term {
	if m.lastMono == nil {
		// The first monotonic instant of a path is fixed (1 s after process start): the code under
		// test only ever uses differences of monotonic readings, and a symbolic origin makes every
		// comparison a 64-bit adder-chain problem no solver here decides quickly.
		m.lastMono = m.ts.BVConst(1_000_000_000, 64)
		m.note("monotonic clock origin is concrete (1s); only differences are symbolic")
	}
	return m.lastMono
}

func extTimeNow(m *Machine, fr *frame, args []value) value {
	ts := m.ts
	mono := m.monoNow()
	// all readings taken at one monotonic instant see the same wall clock; between instants the
	// wall clock is arbitrary (it may jump either way)
	if w, ok := m.wallAt[mono.id]; ok {
		return tuple{w[0], w[1], &Sym{mono}}
	}
	// narrow variables keep the abstract domain (known bits / ranges) informative
	sec := m.newInput("clk.sec", "int", BV(31), 31, false)
	m.seed(sec, 1577836800)
	m.assume(ts.BVCmp("bvuge", sec, ts.BVConst(1577836800, 31)))
	m.assume(ts.BVCmp("bvult", sec, ts.BVConst(2000000000, 31)))
	nsec := m.newInput("clk.nsec", "int", BV(30), 30, false)
	m.assume(ts.BVCmp("bvult", nsec, ts.BVConst(1000000000, 30)))
	w := [2]value{&Sym{ts.ZExt(sec, 64)}, &Sym{ts.ZExt(nsec, 32)}}
	m.wallAt[mono.id] = w
	return tuple{w[0], w[1], &Sym{mono}}
}

func extRuntimeNano(m *Machine, fr *frame, args []value) value {
	if m.inInit {
		return int64(1)
	}
	return m.fromTerm(types.Typ[types.Int64], m.monoNow())
}

// nd.Sleep(d): the monotonic clock advances by exactly d (d >= 0 is the harness's duty).
func extNDSleep(m *Machine, fr *frame, args []value) value {
	d := m.toTerm(args[0])
	m.lastMono = m.ts.BVBin("bvadd", m.monoNow(), d)
	return nil
}

// nd.MonoNow(): the current monotonic instant in nanoseconds.
func extNDMonoNow(m *Machine, fr *frame, args []value) value {
	return m.fromTerm(types.Typ[types.Int64], m.monoNow())
}

// ---- string kernels ----

func extIndexByteString(m *Machine, fr *frame, args []value) value {
	s, c := args[0], args[1]
	for i := 0; i < strLen(s); i++ {
		if m.decideV(m.eqv(nil, strByte(s, i), c)) {
			return i
		}
	}
	return -1
}

func extIndexByte(m *Machine, fr *frame, args []value) value {
	s, c := args[0].([]value), args[1]
	for i := range s {
		if m.decideV(m.eqv(nil, s[i], c)) {
			return i
		}
	}
	return -1
}

func extCountString(m *Machine, fr *frame, args []value) value {
	s := args[0]
	var sub value
	if b, ok := args[1].(byte); ok {
		sub = string([]byte{b})
	} else if sb, ok := args[1].(*Sym); ok {
		sub = sstr{sb}
	} else {
		sub = args[1]
	}
	n, k := strLen(s), strLen(sub)
	if k == 0 {
		// number of runes + 1 (ASCII assumption for symbolic bytes)
		return extRuneCountInString(m, fr, []value{s}).(int) + 1
	}
	cnt := 0
	for i := 0; i+k <= n; {
		if m.decideV(m.strEq(strSlice(s, i, i+k), sub)) {
			cnt++
			i += k
		} else {
			i++
		}
	}
	return cnt
}

func extIndexString(m *Machine, fr *frame, args []value) value {
	s, sub := args[0], args[1]
	n, k := strLen(s), strLen(sub)
	for i := 0; i+k <= n; i++ {
		if m.decideV(m.strEq(strSlice(s, i, i+k), sub)) {
			return i
		}
	}
	return -1
}

func extMakeNoZero(m *Machine, fr *frame, args []value) value {
	n := args[0].(int)
	sl := make([]value, n)
	for i := range sl {
		sl[i] = byte(0)
	}
	return sl
}

func (m *Machine) mapBytes(v value, f func(b byte) byte, fs func(t *Term) *Term) value {
	if s, ok := v.(string); ok {
		bs := []byte(s)
		for i := range bs {
			if bs[i] < 0x80 {
				bs[i] = f(bs[i])
			}
		}
		// non-ASCII content: defer to the real function semantics for pure-concrete strings
		return string(bs)
	}
	in := v.(sstr)
	out := make([]value, len(in))
	for i, b := range in {
		switch x := b.(type) {
		case byte:
			if x >= 0x80 {
				panic(unsupported{"case mapping of non-ASCII bytes in a symbolic string"})
			}
			out[i] = f(x)
		case *Sym:
			out[i] = m.fromTerm(types.Typ[types.Uint8], fs(x.t))
		}
	}
	return normStr(out)
}

func extToLower(m *Machine, fr *frame, args []value) value {
	if s, ok := args[0].(string); ok {
		return strings.ToLower(s)
	}
	ts := m.ts
	return m.mapBytes(args[0], func(b byte) byte {
		if b >= 'A' && b <= 'Z' {
			return b + 32
		}
		return b
	}, func(t *Term) *Term {
		up := ts.And(ts.BVCmp("bvuge", t, ts.BVConst('A', 8)), ts.BVCmp("bvule", t, ts.BVConst('Z', 8)))
		return ts.Ite(up, ts.BVBin("bvadd", t, ts.BVConst(32, 8)), t)
	})
}

func extToUpper(m *Machine, fr *frame, args []value) value {
	if s, ok := args[0].(string); ok {
		return strings.ToUpper(s)
	}
	ts := m.ts
	return m.mapBytes(args[0], func(b byte) byte {
		if b >= 'a' && b <= 'z' {
			return b - 32
		}
		return b
	}, func(t *Term) *Term {
		lo := ts.And(ts.BVCmp("bvuge", t, ts.BVConst('a', 8)), ts.BVCmp("bvule", t, ts.BVConst('z', 8)))
		return ts.Ite(lo, ts.BVBin("bvsub", t, ts.BVConst(32, 8)), t)
	})
}

func (m *Machine) isSpaceByte(b value) value {
	if c, ok := b.(byte); ok {
		return c == ' ' || c == '\t' || c == '\n' || c == '\v' || c == '\f' || c == '\r'
	}
	t := b.(*Sym).t
	ts := m.ts
	acc := ts.False
	for _, c := range []byte{' ', '\t', '\n', '\v', '\f', '\r'} {
		acc = ts.Or(acc, ts.Eq(t, ts.BVConst(uint64(c), 8)))
	}
	return m.fromTerm(types.Typ[types.Bool], acc)
}

func extTrimSpace(m *Machine, fr *frame, args []value) value {
	if s, ok := args[0].(string); ok {
		return strings.TrimSpace(s)
	}
	s := args[0]
	lo, hi := 0, strLen(s)
	for lo < hi && m.decideV(m.isSpaceByte(strByte(s, lo))) {
		lo++
	}
	for hi > lo && m.decideV(m.isSpaceByte(strByte(s, hi-1))) {
		hi--
	}
	return strSlice(s, lo, hi)
}

func extEqualFold(m *Machine, fr *frame, args []value) value {
	a, aok := args[0].(string)
	b, bok := args[1].(string)
	if aok && bok {
		return strings.EqualFold(a, b)
	}
	return m.strEq(extToLower(m, fr, []value{args[0]}), extToLower(m, fr, []value{args[1]}))
}

func extRepeat(m *Machine, fr *frame, args []value) value {
	n := args[1].(int)
	if n < 0 {
		panic(targetPanic{v: runtimeError("strings: negative Repeat count")})
	}
	var out value = ""
	for i := 0; i < n; i++ {
		out = strConcat(out, args[0])
	}
	return out
}

func extStrCompare(m *Machine, fr *frame, args []value) value {
	if m.decideV(m.strEq(args[0], args[1])) {
		return 0
	}
	if m.decideV(m.strLess(args[0], args[1], false)) {
		return -1
	}
	return 1
}

func extBuilderString(m *Machine, fr *frame, args []value) value {
	p := args[0].(*value)
	st := (*p).(structure)
	buf, _ := st[1].([]value)
	return normStr(buf)
}

func extBytesEqual(m *Machine, fr *frame, args []value) value {
	a, b := args[0].([]value), args[1].([]value)
	return m.strEq(normStr(a), normStr(b))
}

func extRuneCountInString(m *Machine, fr *frame, args []value) value {
	if s, ok := args[0].(string); ok {
		return len([]rune(s))
	}
	for _, b := range args[0].(sstr) {
		if c, ok := b.(byte); ok && c >= 0x80 {
			panic(unsupported{"rune count of non-ASCII symbolic string"})
		}
	}
	return strLen(args[0])
}

func extDecodeRuneInString(m *Machine, fr *frame, args []value) value {
	it := &stringIter{s: args[0]}
	t := it.next(m)
	if t[0] == false {
		return tuple{rune(0xFFFD), 0}
	}
	return tuple{t[2], it.i}
}

// ---- numbers ----

func extItoa(m *Machine, fr *frame, args []value) value {
	if s, ok := args[0].(*Sym); ok {
		return m.symItoa(s)
	}
	return strconv.Itoa(args[0].(int))
}

// symItoa renders a symbolic int by forking over its feasible decimal length (0..999 supported).
func (m *Machine) symItoa(s *Sym) value {
	v := m.concretize(s, 0, 40, "strconv.Itoa of a symbolic int (only 0..40 supported)")
	if v > 40 {
		panic(unsupported{"strconv.Itoa of a symbolic int outside 0..40"})
	}
	return strconv.Itoa(int(v))
}

func (m *Machine) mkError(fr *frame, msg value) value {
	pkg := m.P.Prog.ImportedPackage("errors")
	if pkg == nil {
		panic(unsupported{"errors package not loaded"})
	}
	return m.call(fr, token.NoPos, pkg.Func("New"), []value{msg})
}

func extAtoi(m *Machine, fr *frame, args []value) value {
	if _, sym := args[0].(sstr); sym {
		// symbolic digits: interpret strconv's own source
		return m.callSource(fr.caller, fr.callpos, fr.fn, args, nil)
	}
	s := m.concStr(args[0], "strconv.Atoi")
	i, e := strconv.Atoi(s)
	if e != nil {
		return tuple{i, m.mkError(fr, e.Error())}
	}
	return tuple{i, iface{}}
}

func extFormatInt(m *Machine, fr *frame, args []value) value {
	return strconv.FormatInt(args[0].(int64), args[1].(int))
}

func extParseInt(m *Machine, fr *frame, args []value) value {
	if _, sym := args[0].(sstr); sym {
		return m.callSource(fr.caller, fr.callpos, fr.fn, args, nil)
	}
	s := m.concStr(args[0], "strconv.ParseInt")
	i, e := strconv.ParseInt(s, args[1].(int), args[2].(int))
	if e != nil {
		return tuple{i, m.mkError(fr, e.Error())}
	}
	return tuple{i, iface{}}
}

func extParseBool(m *Machine, fr *frame, args []value) value {
	s := m.concStr(args[0], "strconv.ParseBool")
	b, e := strconv.ParseBool(s)
	if e != nil {
		return tuple{b, m.mkError(fr, e.Error())}
	}
	return tuple{b, iface{}}
}

// ---- formatting ----

// fmtOperand renders one Sprintf operand for the given verb; result is string or sstr.
func (m *Machine) fmtOperand(fr *frame, spec string, verb byte, arg value) value {
	itf, ok := arg.(iface)
	if !ok {
		itf = iface{t: nil, v: arg}
	}
	if itf.t == nil && ok {
		if verb == 'v' || verb == 's' {
			return "<nil>"
		}
		return "%!" + string(verb) + "(<nil>)"
	}
	// error / Stringer
	if itf.t != nil && (verb == 'v' || verb == 's' || verb == 'q' || verb == 'w') {
		if _, isBasic := itf.t.Underlying().(*types.Basic); !isBasic || hasMethod(itf.t, "Error") || hasMethod(itf.t, "String") {
			for _, name := range []string{"Error", "String"} {
				if f := m.findMethod(itf.t, name); f != nil {
					if p, isPtr := itf.v.(*value); isPtr && p == nil {
						return "<nil>"
					}
					r := m.call(fr, token.NoPos, f, []value{itf.v})
					if verb == 'q' {
						return strconv.Quote(m.concStr(r, "%q"))
					}
					return r
				}
			}
		}
	}
	switch x := itf.v.(type) {
	case string:
		if verb == 'w' {
			verb = 'v'
			spec = "%v"
		}
		return fmt.Sprintf(spec, x)
	case sstr:
		if verb == 's' || verb == 'v' {
			return x
		}
		if verb == 'q' {
			m.note("%q of a symbolic string rendered without escaping")
			return strConcat(strConcat("\"", x), "\"")
		}
		panic(unsupported{"Sprintf verb %" + string(verb) + " on a symbolic string"})
	case *Sym:
		if x.t.sort.K == SBool {
			if m.decide(x.t) {
				return fmt.Sprintf(spec, true)
			}
			return fmt.Sprintf(spec, false)
		}
		if x.t.sort.K == SBV && (verb == 'd' || verb == 'v') {
			v := m.concretize(x, 0, 40, "Sprintf %d of a symbolic int (only 0..40 supported)")
			if v > 40 {
				panic(unsupported{"Sprintf of a symbolic int outside 0..40"})
			}
			return fmt.Sprintf(spec, int(v))
		}
		panic(unsupported{"Sprintf of a symbolic scalar with verb " + string(verb)})
	case bool, int, int8, int16, int32, int64, uint, uint8, uint16, uint32, uint64, uintptr, float32, float64:
		return fmt.Sprintf(spec, x)
	case []value:
		if verb == 'v' || verb == 's' {
			parts := []string{}
			for _, e := range x {
				r := m.fmtOperand(fr, "%v", 'v', e)
				parts = append(parts, m.concStrLoose(r))
			}
			return "[" + strings.Join(parts, " ") + "]"
		}
	case rtype:
		return x.t.String()
	}
	if verb == 'T' {
		if itf.t != nil {
			return itf.t.String()
		}
	}
	return "<" + toString(itf.v) + ">"
}

func (m *Machine) concStrLoose(v value) string {
	if s, ok := v.(string); ok {
		return s
	}
	return toString(v)
}

func hasMethod(t types.Type, name string) bool {
	ms := types.NewMethodSet(t)
	for i := 0; i < ms.Len(); i++ {
		if ms.At(i).Obj().Name() == name {
			return true
		}
	}
	return false
}

func (m *Machine) findMethod(t types.Type, name string) *ssa.Function {
	ms := m.P.Prog.MethodSets.MethodSet(t)
	for i := 0; i < ms.Len(); i++ {
		sel := ms.At(i)
		if sel.Obj().Name() == name {
			sig := sel.Type().(*types.Signature)
			if sig.Params().Len() == 0 && sig.Results().Len() == 1 && isStringT(sig.Results().At(0).Type()) {
				return m.P.Prog.MethodValue(sel)
			}
		}
	}
	return nil
}

func (m *Machine) sprintf(fr *frame, format string, operands []value) value {
	var out value = ""
	argi := 0
	i := 0
	for i < len(format) {
		j := strings.IndexByte(format[i:], '%')
		if j < 0 {
			out = strConcat(out, format[i:])
			break
		}
		out = strConcat(out, format[i:i+j])
		i += j
		// parse spec
		k := i + 1
		for k < len(format) && strings.IndexByte("+-# 0123456789.*", format[k]) >= 0 {
			k++
		}
		if k >= len(format) {
			out = strConcat(out, "%!(NOVERB)")
			break
		}
		verb := format[k]
		spec := format[i : k+1]
		i = k + 1
		if verb == '%' {
			out = strConcat(out, "%")
			continue
		}
		if strings.Contains(spec, "*") {
			panic(unsupported{"Sprintf with * width"})
		}
		if argi >= len(operands) {
			out = strConcat(out, "%!"+string(verb)+"(MISSING)")
			continue
		}
		out = strConcat(out, m.fmtOperand(fr, spec, verb, operands[argi]))
		argi++
	}
	if argi < len(operands) {
		out = strConcat(out, "%!(EXTRA)")
	}
	return out
}

func extSprintf(m *Machine, fr *frame, args []value) value {
	ops, _ := args[1].([]value)
	return m.sprintf(fr, m.concStr(args[0], "Sprintf format"), ops)
}

func extErrorf(m *Machine, fr *frame, args []value) value {
	ops, _ := args[1].([]value)
	return m.mkError(fr, m.sprintf(fr, m.concStr(args[0], "Errorf format"), ops))
}

func extSprint(m *Machine, fr *frame, args []value) value {
	ops, _ := args[0].([]value)
	var out value = ""
	for i, o := range ops {
		if i > 0 {
			out = strConcat(out, " ")
		}
		out = strConcat(out, m.fmtOperand(fr, "%v", 'v', o))
	}
	return out
}

// ---- sorting ----

// insertionSort is a stable sort driven by a (possibly symbolic) less function over indices.
func (m *Machine) stableSortBy(n int, less func(i, j int) bool, swap func(i, j int)) {
	for i := 1; i < n; i++ {
		for j := i; j > 0 && less(j, j-1); j-- {
			swap(j, j-1)
		}
	}
}

func extSortSlice(m *Machine, fr *frame, args []value) value {
	itf := args[0].(iface)
	sl, _ := itf.v.([]value)
	lessFn := args[1]
	less := func(i, j int) bool {
		return m.decideV(m.call(fr, token.NoPos, lessFn, []value{i, j}))
	}
	swap := func(i, j int) {
		a, b := copyVal(sl[i]), copyVal(sl[j])
		store(&sl[i], b)
		store(&sl[j], a)
	}
	m.stableSortBy(len(sl), less, swap)
	return nil
}

func extSortStrings(m *Machine, fr *frame, args []value) value {
	sl := args[0].([]value)
	allConc := true
	for _, s := range sl {
		if _, ok := s.(string); !ok {
			allConc = false
		}
	}
	if allConc {
		sort.SliceStable(sl, func(i, j int) bool { return sl[i].(string) < sl[j].(string) })
		return nil
	}
	m.stableSortBy(len(sl), func(i, j int) bool { return m.decideV(m.strLess(sl[i], sl[j], false)) },
		func(i, j int) { sl[i], sl[j] = sl[j], sl[i] })
	return nil
}

func extSortInts(m *Machine, fr *frame, args []value) value {
	sl := args[0].([]value)
	it := types.Typ[types.Int]
	m.stableSortBy(len(sl), func(i, j int) bool { return m.decideV(m.binop(token.LSS, it, it, sl[i], sl[j])) },
		func(i, j int) { sl[i], sl[j] = sl[j], sl[i] })
	return nil
}

func extSlicesSort(m *Machine, fr *frame, args []value) value {
	sl := args[0].([]value)
	if len(sl) == 0 {
		return nil
	}
	if isStrVal(sl[0]) {
		return extSortStrings(m, fr, args)
	}
	return extSortInts(m, fr, args)
}

func extSortSort(m *Machine, fr *frame, args []value) value {
	itf := args[0].(iface)
	get := func(name string) *ssa.Function {
		ms := m.P.Prog.MethodSets.MethodSet(itf.t)
		for i := 0; i < ms.Len(); i++ {
			if ms.At(i).Obj().Name() == name {
				return m.P.Prog.MethodValue(ms.At(i))
			}
		}
		panic("sort.Sort: missing method " + name)
	}
	n := m.call(fr, token.NoPos, get("Len"), []value{itf.v}).(int)
	lessF, swapF := get("Less"), get("Swap")
	m.stableSortBy(n,
		func(i, j int) bool { return m.decideV(m.call(fr, token.NoPos, lessF, []value{itf.v, i, j})) },
		func(i, j int) { m.call(fr, token.NoPos, swapF, []value{itf.v, i, j}) })
	return nil
}
