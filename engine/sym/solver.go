package sym

import (
	"bufio"
	"fmt"
	"io"
	"os/exec"
	"strconv"
	"strings"
	"time"
)

type Result int

const (
	Sat Result = iota
	Unsat
	Unknown
)

func (r Result) String() string { return [...]string{"sat", "unsat", "unknown"}[r] }

// Solver is one live SMT solver process driven over stdin/stdout.
type Solver struct {
	Name     string
	spec     SolverSpec
	cmd      *exec.Cmd
	in       io.WriteCloser
	lines    chan string
	defined  map[int]bool
	depth    int
	Queries  int
	Time     time.Duration
	Errors   []string
	Log      io.Writer
	HardMs   int       // hard limit per check-sat; the process is killed and restarted beyond it
	stack    [][]*Term // assertions per push level (for restarts)
	Restarts int
	Timeouts int

	OneShot    bool // every check-sat runs in a fresh non-incremental process
	FallbackMs int  // incremental answer awaited this long before falling back to one-shot (0: never)
	OneShots   int
	lastModel  map[string]uint64
	lastOne    bool
}

// SolverSpec names a solver back end.
type SolverSpec struct {
	Name      string
	Argv      []string
	TimeoutMs int
}

func SolverByName(name string, timeoutMs int) SolverSpec {
	switch name {
	case "z3-new":
		return SolverSpec{"z3-new", []string{"z3-new", "-in", fmt.Sprintf("-t:%d", timeoutMs)}, timeoutMs}
	case "cvc5-int":
		return SolverSpec{"cvc5", []string{"cvc5", "--incremental", "--produce-models", "--lang=smt2", "--solve-bv-as-int=sum", fmt.Sprintf("--tlimit-per=%d", timeoutMs)}, timeoutMs}
	case "cvc5":
		return SolverSpec{"cvc5", []string{"cvc5", "--incremental", "--produce-models", "--lang=smt2", fmt.Sprintf("--tlimit-per=%d", timeoutMs)}, timeoutMs}
	default:
		return SolverSpec{"z3", []string{"z3", "-in", fmt.Sprintf("-t:%d", timeoutMs)}, timeoutMs}
	}
}

func StartSolver(spec SolverSpec, log io.Writer) (*Solver, error) {
	s := &Solver{Name: spec.Name, spec: spec, defined: map[int]bool{}, Log: log, HardMs: spec.TimeoutMs + spec.TimeoutMs/2 + 5000}
	if err := s.start(); err != nil {
		return nil, err
	}
	return s, nil
}

func (s *Solver) start() error {
	spec := s.spec
	cmd := exec.Command(spec.Argv[0], spec.Argv[1:]...)
	in, err := cmd.StdinPipe()
	if err != nil {
		return err
	}
	out, err := cmd.StdoutPipe()
	if err != nil {
		return err
	}
	cmd.Stderr = cmd.Stdout
	if err := cmd.Start(); err != nil {
		return err
	}
	s.cmd, s.in = cmd, in
	lines := make(chan string, 256)
	s.lines = lines
	go func() {
		r := bufio.NewReaderSize(out, 1<<16)
		for {
			l, err := r.ReadString('\n')
			if l != "" {
				lines <- l
			}
			if err != nil {
				close(lines)
				return
			}
		}
	}()
	s.defined = map[int]bool{}
	s.send("(set-option :global-declarations true)")
	s.send("(set-option :produce-models true)")
	if spec.Name == "cvc5" {
		s.send("(set-logic ALL)")
	}
	return nil
}

// restart kills a stuck solver and rebuilds the assertion stack in a fresh process.
func (s *Solver) restart() {
	s.Restarts++
	if s.cmd != nil {
		s.cmd.Process.Kill()
		s.in.Close()
		go s.cmd.Wait()
	}
	if err := s.start(); err != nil {
		s.Errors = append(s.Errors, "solver restart failed: "+err.Error())
		return
	}
	for _, lvl := range s.stack {
		s.send("(push 1)")
		for _, t := range lvl {
			s.define(t)
			s.send(fmt.Sprintf("(assert %s)", t.ref()))
		}
	}
}

func (s *Solver) Close() {
	if s == nil || s.cmd == nil {
		return
	}
	s.in.Close()
	done := make(chan struct{})
	go func() { s.cmd.Wait(); close(done) }()
	select {
	case <-done:
	case <-time.After(2 * time.Second):
		s.cmd.Process.Kill()
	}
	s.cmd = nil
}

func (s *Solver) send(line string) {
	if s.Log != nil {
		fmt.Fprintln(s.Log, line)
	}
	io.WriteString(s.in, line)
	io.WriteString(s.in, "\n")
}

// define emits definitions for t and its sub-terms (post-order) that this solver has not seen.
func (s *Solver) define(t *Term) {
	if t.op == "const" || s.defined[t.id] {
		return
	}
	// iterative post-order to survive deep terms
	type fr struct {
		t *Term
		i int
	}
	st := []fr{{t, 0}}
	for len(st) > 0 {
		top := &st[len(st)-1]
		if top.t.op == "const" || s.defined[top.t.id] {
			st = st[:len(st)-1]
			continue
		}
		if top.i < len(top.t.args) {
			a := top.t.args[top.i]
			top.i++
			if a.op != "const" && !s.defined[a.id] {
				st = append(st, fr{a, 0})
			}
			continue
		}
		x := top.t
		st = st[:len(st)-1]
		s.defined[x.id] = true
		if x.op == "var" {
			s.send(fmt.Sprintf("(declare-const %s %s)", x.ref(), x.sort))
		} else {
			s.send(fmt.Sprintf("(define-fun t%d () %s %s)", x.id, x.sort, x.body()))
		}
	}
}

func (s *Solver) Push() {
	s.send("(push 1)")
	s.depth++
	s.stack = append(s.stack, nil)
}

func (s *Solver) Pop(n int) {
	if n <= 0 {
		return
	}
	s.send(fmt.Sprintf("(pop %d)", n))
	s.depth -= n
	s.stack = s.stack[:len(s.stack)-n]
}

func (s *Solver) Depth() int { return s.depth }

func (s *Solver) Assert(t *Term) {
	s.define(t)
	s.send(fmt.Sprintf("(assert %s)", t.ref()))
	if len(s.stack) > 0 {
		s.stack[len(s.stack)-1] = append(s.stack[len(s.stack)-1], t)
	}
}

var errSolverTimeout = fmt.Errorf("solver hard timeout")

func (s *Solver) readRaw(limit time.Duration) (string, error) {
	select {
	case l, ok := <-s.lines:
		if !ok {
			return "", io.EOF
		}
		return l, nil
	case <-time.After(limit):
		return "", errSolverTimeout
	}
}

func (s *Solver) readLine(limit time.Duration) (string, error) {
	l, err := s.readRaw(limit)
	return strings.TrimSpace(l), err
}

// Check runs check-sat on the current assertion stack.
func (s *Solver) Check() Result {
	t0 := time.Now()
	s.Queries++
	defer func() { s.Time += time.Since(t0) }()
	s.lastOne = false
	if s.OneShot {
		return s.checkOneShot()
	}
	s.send("(check-sat)")
	limit := s.HardMs
	if s.FallbackMs > 0 && s.FallbackMs < limit {
		limit = s.FallbackMs
	}
	deadline := time.Now().Add(time.Duration(limit) * time.Millisecond)
	for {
		l, err := s.readLine(time.Until(deadline))
		if err == errSolverTimeout {
			s.Timeouts++
			s.restart()
			if s.FallbackMs > 0 {
				return s.checkOneShot()
			}
			return Unknown
		}
		if err != nil {
			s.Errors = append(s.Errors, "solver died: "+err.Error())
			s.restart()
			return Unknown
		}
		switch {
		case l == "sat":
			return Sat
		case l == "unsat":
			return Unsat
		case l == "unknown" || l == "timeout":
			return Unknown
		case l == "":
		case strings.HasPrefix(l, "(error"):
			s.Errors = append(s.Errors, l)
			// keep reading: the answer still follows, but the caller must treat it as inconclusive
		default:
			// warnings etc.
			if !strings.Contains(l, "warning") && !strings.Contains(l, "cvc5 will") && !strings.Contains(l, "set-logic") && !strings.Contains(l, "Consider") && !strings.Contains(l, "To suppress") {
				s.Errors = append(s.Errors, "unexpected solver output: "+l)
			}
		}
	}
}

// CheckWith returns the status of stack ∧ t without changing the stack.
func (s *Solver) CheckWith(t *Term) Result {
	s.Push()
	s.Assert(t)
	r := s.Check()
	s.Pop(1)
	return r
}

// Values returns the model values of the given terms (after a sat answer,
// before any further push/pop/assert).
func (s *Solver) Values(ts []*Term) (map[*Term]uint64, error) {
	res := map[*Term]uint64{}
	if len(ts) == 0 {
		return res, nil
	}
	if s.lastOne {
		for _, t := range ts {
			if t.op != "var" {
				return nil, fmt.Errorf("one-shot model only has variables")
			}
			res[t] = s.lastModel[t.name]
		}
		return res, nil
	}
	for _, t := range ts {
		s.define(t)
	}
	var sb strings.Builder
	sb.WriteString("(get-value (")
	for _, t := range ts {
		sb.WriteString(t.ref())
		sb.WriteByte(' ')
	}
	sb.WriteString("))")
	s.send(sb.String())
	// read a balanced s-expression
	var buf strings.Builder
	depth := 0
	started := false
	for {
		l, err := s.readRaw(60 * time.Second)
		if err != nil {
			s.restart()
			return nil, err
		}
		if strings.HasPrefix(strings.TrimSpace(l), "(error") {
			s.Errors = append(s.Errors, strings.TrimSpace(l))
			return nil, fmt.Errorf("solver error: %s", l)
		}
		inBar := false
		for _, c := range l {
			if c == '|' {
				inBar = !inBar
			}
			if inBar {
				continue
			}
			if c == '(' {
				depth++
				started = true
			} else if c == ')' {
				depth--
			}
		}
		buf.WriteString(l)
		if started && depth <= 0 {
			break
		}
	}
	vals := parseValues(buf.String())
	if len(vals) != len(ts) {
		return nil, fmt.Errorf("get-value: expected %d values, got %d in %q", len(ts), len(vals), buf.String())
	}
	for i, t := range ts {
		v, err := parseSMTValue(vals[i], t.sort)
		if err != nil {
			return nil, err
		}
		res[t] = v
	}
	return res, nil
}

// parseValues splits "((a v) (b v) ...)" into the value strings.
func parseValues(s string) []string {
	s = strings.TrimSpace(s)
	toks := tokenize(s)
	// structure: ( (name val) (name val) ... )
	var out []string
	i := 0
	if len(toks) == 0 || toks[0] != "(" {
		return nil
	}
	i = 1
	for i < len(toks) && toks[i] == "(" {
		i++ // (
		// name: one sexpr
		i = skipSexpr(toks, i)
		st := i
		i = skipSexpr(toks, i)
		out = append(out, strings.Join(toks[st:i], " "))
		if i < len(toks) && toks[i] == ")" {
			i++
		}
	}
	return out
}

func skipSexpr(toks []string, i int) int {
	if i >= len(toks) {
		return i
	}
	if toks[i] != "(" {
		return i + 1
	}
	d := 0
	for i < len(toks) {
		if toks[i] == "(" {
			d++
		} else if toks[i] == ")" {
			d--
			if d == 0 {
				return i + 1
			}
		}
		i++
	}
	return i
}

func tokenize(s string) []string {
	var toks []string
	i := 0
	for i < len(s) {
		c := s[i]
		switch {
		case c == '(' || c == ')':
			toks = append(toks, string(c))
			i++
		case c == ' ' || c == '\n' || c == '\t' || c == '\r':
			i++
		case c == '|':
			j := i + 1
			for j < len(s) && s[j] != '|' {
				j++
			}
			toks = append(toks, s[i:j+1])
			i = j + 1
		default:
			j := i
			for j < len(s) && !strings.ContainsRune("() \n\t\r", rune(s[j])) {
				j++
			}
			toks = append(toks, s[i:j])
			i = j
		}
	}
	return toks
}

func parseSMTValue(v string, sort Sort) (uint64, error) {
	v = strings.TrimSpace(v)
	switch sort.K {
	case SBool:
		if v == "true" {
			return 1, nil
		}
		if v == "false" {
			return 0, nil
		}
	case SBV:
		if strings.HasPrefix(v, "#x") {
			return strconv.ParseUint(v[2:], 16, 64)
		}
		if strings.HasPrefix(v, "#b") {
			return strconv.ParseUint(v[2:], 2, 64)
		}
		// (_ bvN w)
		f := strings.Fields(strings.Trim(v, "()"))
		if len(f) == 3 && f[0] == "_" && strings.HasPrefix(f[1], "bv") {
			return strconv.ParseUint(f[1][2:], 10, 64)
		}
	case SFP:
		// (fp #b0 #x00 #b000...) or special forms
		toks := tokenize(v)
		if len(toks) >= 5 && toks[1] == "fp" {
			var bits uint64
			for _, p := range toks[2:5] {
				var n uint64
				var w int
				var err error
				if strings.HasPrefix(p, "#x") {
					n, err = strconv.ParseUint(p[2:], 16, 64)
					w = 4 * (len(p) - 2)
				} else if strings.HasPrefix(p, "#b") {
					n, err = strconv.ParseUint(p[2:], 2, 64)
					w = len(p) - 2
				} else {
					err = fmt.Errorf("bad fp component %q", p)
				}
				if err != nil {
					return 0, err
				}
				bits = bits<<uint(w) | n
			}
			return bits, nil
		}
		if len(toks) >= 5 && toks[1] == "_" {
			eb, sb := 8, 24
			if sort.W == 64 {
				eb, sb = 11, 53
			}
			switch toks[2] {
			case "+zero":
				return 0, nil
			case "-zero":
				return 1 << uint(eb+sb-1), nil
			case "+oo":
				return mask(eb) << uint(sb-1), nil
			case "-oo":
				return 1<<uint(eb+sb-1) | mask(eb)<<uint(sb-1), nil
			case "NaN":
				return mask(eb)<<uint(sb-1) | 1<<uint(sb-2), nil
			}
		}
	}
	return 0, fmt.Errorf("cannot parse solver value %q of sort %v", v, sort)
}

// checkOneShot decides the current assertion stack in a fresh solver process. z3's incremental
// mode skips the preprocessing that makes floating-point and wide bit-vector problems tractable;
// the same query is often answered in seconds non-incrementally.
func (s *Solver) checkOneShot() Result {
	s.OneShots++
	var sb strings.Builder
	sb.WriteString("(set-option :produce-models true)\n")
	if s.spec.Name == "cvc5" {
		sb.WriteString("(set-logic ALL)\n")
	}
	defined := map[int]bool{}
	var vars []*Term
	var def func(t *Term)
	def = func(t *Term) {
		if t.op == "const" || defined[t.id] {
			return
		}
		for _, a := range t.args {
			def(a)
		}
		defined[t.id] = true
		if t.op == "var" {
			fmt.Fprintf(&sb, "(declare-const %s %s)\n", t.ref(), t.sort)
			vars = append(vars, t)
		} else {
			fmt.Fprintf(&sb, "(define-fun t%d () %s %s)\n", t.id, t.sort, t.body())
		}
	}
	for _, lvl := range s.stack {
		for _, t := range lvl {
			def(t)
			fmt.Fprintf(&sb, "(assert %s)\n", t.ref())
		}
	}
	sb.WriteString("(check-sat)\n")
	if len(vars) > 0 {
		sb.WriteString("(get-value (")
		for _, v := range vars {
			sb.WriteString(v.ref())
			sb.WriteByte(' ')
		}
		sb.WriteString("))\n")
	}
	var argv []string
	secs := s.spec.TimeoutMs/1000 + 1
	switch s.spec.Name {
	case "cvc5":
		argv = []string{"cvc5", "--lang=smt2", "--produce-models", fmt.Sprintf("--tlimit=%d", s.spec.TimeoutMs)}
		for _, a := range s.spec.Argv {
			if strings.HasPrefix(a, "--solve-bv-as-int") {
				argv = append(argv, a)
			}
		}
	case "z3-new":
		argv = []string{"z3-new", "-in", fmt.Sprintf("-T:%d", secs)}
	default:
		argv = []string{"z3", "-in", fmt.Sprintf("-T:%d", secs)}
	}
	cmd := exec.Command(argv[0], argv[1:]...)
	cmd.Stdin = strings.NewReader(sb.String())
	done := make(chan struct{})
	var out []byte
	go func() { out, _ = cmd.CombinedOutput(); close(done) }()
	select {
	case <-done:
	case <-time.After(time.Duration(s.spec.TimeoutMs+10000) * time.Millisecond):
		if cmd.Process != nil {
			cmd.Process.Kill()
		}
		<-done
		return Unknown
	}
	txt := string(out)
	first := strings.TrimSpace(txt)
	if i := strings.Index(first, "\n"); i >= 0 {
		first = strings.TrimSpace(first[:i])
	}
	if strings.Contains(txt, "(error") && !strings.Contains(txt, "model is not available") {
		for _, l := range strings.Split(txt, "\n") {
			if strings.HasPrefix(strings.TrimSpace(l), "(error") {
				s.Errors = append(s.Errors, "one-shot: "+strings.TrimSpace(l))
				break
			}
		}
	}
	switch first {
	case "unsat":
		return Unsat
	case "sat":
		rest := txt[strings.Index(txt, "sat")+3:]
		vals := parseValues(rest)
		s.lastModel = map[string]uint64{}
		if len(vals) == len(vars) {
			for i, v := range vars {
				if x, err := parseSMTValue(vals[i], v.sort); err == nil {
					s.lastModel[v.name] = x
				}
			}
			s.lastOne = true
			return Sat
		}
		s.Errors = append(s.Errors, "one-shot: cannot parse model")
		return Unknown
	}
	return Unknown
}
