package sym

// Symbolic-aware operators. Concrete operands are handled by cops.go.

import (
	"fmt"
	"go/token"
	"go/types"
	"math"
)

func basicOf(t types.Type) *types.Basic {
	if t == nil {
		return nil
	}
	b, _ := t.Underlying().(*types.Basic)
	return b
}

func isUnsignedT(t types.Type) bool {
	b := basicOf(t)
	return b != nil && b.Info()&types.IsUnsigned != 0
}

func isFloatT(t types.Type) bool {
	b := basicOf(t)
	return b != nil && b.Info()&types.IsFloat != 0
}

func isStringT(t types.Type) bool {
	b := basicOf(t)
	return b != nil && b.Info()&types.IsString != 0
}

func widthOfKind(k types.BasicKind) int {
	switch k {
	case types.Int8, types.Uint8:
		return 8
	case types.Int16, types.Uint16:
		return 16
	case types.Int32, types.Uint32:
		return 32
	case types.Int, types.Uint, types.Int64, types.Uint64, types.Uintptr, types.UntypedInt:
		return 64
	case types.UntypedRune:
		return 32
	}
	return 0
}

// toTerm lifts a concrete scalar to a constant term.
func (m *Machine) toTerm(v value) *Term {
	ts := m.ts
	switch x := v.(type) {
	case *Sym:
		return x.t
	case bool:
		return ts.BoolConst(x)
	case int:
		return ts.BVConst(uint64(x), 64)
	case int8:
		return ts.BVConst(uint64(x), 8)
	case int16:
		return ts.BVConst(uint64(x), 16)
	case int32:
		return ts.BVConst(uint64(x), 32)
	case int64:
		return ts.BVConst(uint64(x), 64)
	case uint:
		return ts.BVConst(uint64(x), 64)
	case uint8:
		return ts.BVConst(uint64(x), 8)
	case uint16:
		return ts.BVConst(uint64(x), 16)
	case uint32:
		return ts.BVConst(uint64(x), 32)
	case uint64:
		return ts.BVConst(x, 64)
	case uintptr:
		return ts.BVConst(uint64(x), 64)
	case float32:
		return ts.FPConst32(x)
	case float64:
		return ts.FPConst64(x)
	}
	panic(unsupported{fmt.Sprintf("toTerm of %T", v)})
}

// fromTerm wraps a term as a value, folding constants back to native scalars of static type t.
func (m *Machine) fromTerm(t types.Type, tm *Term) value {
	if !tm.IsConst() {
		return &Sym{tm}
	}
	if tm.sort.K == SBool {
		return tm.val == 1
	}
	b := basicOf(t)
	if b == nil {
		panic(unsupported{fmt.Sprintf("fromTerm: non-basic type %v", t)})
	}
	return concreteOfKind(b.Kind(), tm)
}

func concreteOfKind(k types.BasicKind, tm *Term) value {
	v := tm.val
	switch k {
	case types.Bool, types.UntypedBool:
		return v == 1
	case types.Int, types.UntypedInt:
		return int(sx(v, 64))
	case types.Int8:
		return int8(v)
	case types.Int16:
		return int16(v)
	case types.Int32, types.UntypedRune:
		return int32(v)
	case types.Int64:
		return int64(v)
	case types.Uint:
		return uint(v)
	case types.Uint8:
		return uint8(v)
	case types.Uint16:
		return uint16(v)
	case types.Uint32:
		return uint32(v)
	case types.Uint64:
		return uint64(v)
	case types.Uintptr:
		return uintptr(v)
	case types.Float32:
		return math.Float32frombits(uint32(v))
	case types.Float64, types.UntypedFloat:
		return math.Float64frombits(v)
	}
	panic(unsupported{fmt.Sprintf("concreteOfKind %v", k)})
}

func isSym(v value) bool {
	_, ok := v.(*Sym)
	return ok
}

func isStrVal(v value) bool {
	switch v.(type) {
	case string, sstr:
		return true
	}
	return false
}

// ---- strings with symbolic bytes ----

func strLen(v value) int {
	switch x := v.(type) {
	case string:
		return len(x)
	case sstr:
		return len(x)
	}
	panic(fmt.Sprintf("strLen of %T", v))
}

func strByte(v value, i int) value {
	switch x := v.(type) {
	case string:
		return x[i]
	case sstr:
		return x[i]
	}
	panic(fmt.Sprintf("strByte of %T", v))
}

// normStr turns a byte vector into string or sstr.
func normStr(bs []value) value {
	sym := false
	for _, b := range bs {
		if _, ok := b.(byte); !ok {
			sym = true
			break
		}
	}
	if !sym {
		buf := make([]byte, len(bs))
		for i, b := range bs {
			buf[i] = b.(byte)
		}
		return string(buf)
	}
	return sstr(append([]value(nil), bs...))
}

func strBytes(v value) []value {
	switch x := v.(type) {
	case string:
		r := make([]value, len(x))
		for i := 0; i < len(x); i++ {
			r[i] = x[i]
		}
		return r
	case sstr:
		return append([]value(nil), x...)
	}
	panic(fmt.Sprintf("strBytes of %T", v))
}

func strSlice(v value, lo, hi int) value {
	switch x := v.(type) {
	case string:
		return x[lo:hi]
	case sstr:
		return normStr(x[lo:hi])
	}
	panic(fmt.Sprintf("strSlice of %T", v))
}

func strConcat(a, b value) value {
	if x, ok := a.(string); ok {
		if y, ok := b.(string); ok {
			return x + y
		}
	}
	return normStr(append(strBytes(a), strBytes(b)...))
}

// strEq returns bool or *Sym.
func (m *Machine) strEq(a, b value) value {
	if x, ok := a.(string); ok {
		if y, ok := b.(string); ok {
			return x == y
		}
	}
	if strLen(a) != strLen(b) {
		return false
	}
	acc := m.ts.True
	for i := 0; i < strLen(a); i++ {
		acc = m.ts.And(acc, m.ts.Eq(m.toTerm(strByte(a, i)), m.toTerm(strByte(b, i))))
		if acc == m.ts.False {
			return false
		}
	}
	return m.fromTerm(types.Typ[types.Bool], acc)
}

// strLess returns a<b (lexicographic, bytewise) as bool or *Sym.
func (m *Machine) strLess(a, b value, orEqual bool) value {
	la, lb := strLen(a), strLen(b)
	n := la
	if lb < n {
		n = lb
	}
	// result at the end of the common prefix
	var tail *Term
	if orEqual {
		tail = m.ts.BoolConst(la <= lb)
	} else {
		tail = m.ts.BoolConst(la < lb)
	}
	acc := tail
	for i := n - 1; i >= 0; i-- {
		x, y := m.toTerm(strByte(a, i)), m.toTerm(strByte(b, i))
		acc = m.ts.Ite(m.ts.BVCmp("bvult", x, y), m.ts.True, m.ts.Ite(m.ts.Eq(x, y), acc, m.ts.False))
	}
	return m.fromTerm(types.Typ[types.Bool], acc)
}

func (m *Machine) boolNot(v value) value {
	switch x := v.(type) {
	case bool:
		return !x
	case *Sym:
		return m.fromTerm(types.Typ[types.Bool], m.ts.Not(x.t))
	}
	panic(fmt.Sprintf("boolNot of %T", v))
}

func (m *Machine) boolAnd(a, b value) value {
	return m.fromTerm(types.Typ[types.Bool], m.ts.And(m.toTerm(a), m.toTerm(b)))
}

func (m *Machine) boolOr(a, b value) value {
	return m.fromTerm(types.Typ[types.Bool], m.ts.Or(m.toTerm(a), m.toTerm(b)))
}

// ---- equality ----

// eqv implements == for static type t; result is bool or *Sym.
func (m *Machine) eqv(t types.Type, x, y value) value {
	switch xv := x.(type) {
	case *Sym:
		return m.fromTerm(types.Typ[types.Bool], m.ts.Eq(xv.t, m.toTerm(y)))
	case string, sstr:
		return m.strEq(x, y)
	case structure:
		yv := y.(structure)
		var st *types.Struct
		if t != nil {
			st, _ = t.Underlying().(*types.Struct)
		}
		var acc value = true
		for i := range xv {
			var ft types.Type
			if st != nil {
				if st.Field(i).Name() == "_" {
					continue
				}
				ft = st.Field(i).Type()
			}
			acc = m.boolAnd(acc, m.eqv(ft, xv[i], yv[i]))
			if acc == false {
				return false
			}
		}
		return acc
	case array:
		yv := y.(array)
		var et types.Type
		if t != nil {
			if at, ok := t.Underlying().(*types.Array); ok {
				et = at.Elem()
			}
		}
		var acc value = true
		for i := range xv {
			acc = m.boolAnd(acc, m.eqv(et, xv[i], yv[i]))
			if acc == false {
				return false
			}
		}
		return acc
	case iface:
		yv := y.(iface)
		if !sameType(xv.t, yv.t) {
			return false
		}
		if xv.t == nil {
			return true
		}
		return m.eqv(xv.t, xv.v, yv.v)
	case rtype:
		return types.Identical(xv.t, y.(rtype).t)
	case *value:
		return xv == y.(*value)
	case *mapv:
		// only comparison against nil is legal
		return (xv == nil) == (y.(*mapv) == nil)
	case []value:
		return (xv == nil) == (y.([]value) == nil)
	case *native:
		return xv == y.(*native)
	}
	if _, ok := y.(*Sym); ok {
		return m.fromTerm(types.Typ[types.Bool], m.ts.Eq(m.toTerm(x), m.toTerm(y)))
	}
	if isFunc(x) || isFunc(y) {
		return funcIsNil(x) == funcIsNil(y)
	}
	switch x.(type) {
	case bool, int, int8, int16, int32, int64, uint, uint8, uint16, uint32, uint64, uintptr, float32, float64, complex64, complex128:
		return x == y
	}
	panic(unsupported{fmt.Sprintf("comparison of %T and %T", x, y)})
}

// ---- binary operators ----

var bvArith = map[token.Token]string{
	token.ADD: "bvadd", token.SUB: "bvsub", token.MUL: "bvmul",
	token.AND: "bvand", token.OR: "bvor", token.XOR: "bvxor",
}

func (m *Machine) binop(op token.Token, tx, ty types.Type, x, y value) value {
	switch op {
	case token.EQL:
		return m.eqv(tx, x, y)
	case token.NEQ:
		return m.boolNot(m.eqv(tx, x, y))
	}
	_, xs := x.(*Sym)
	_, ys := y.(*Sym)
	if !xs && !ys {
		if isStrVal(x) || isStrVal(y) {
			if _, ok := x.(string); ok {
				if _, ok := y.(string); ok {
					return cbinop(op, tx, x, y)
				}
			}
			switch op {
			case token.ADD:
				return strConcat(x, y)
			case token.LSS:
				return m.strLess(x, y, false)
			case token.LEQ:
				return m.strLess(x, y, true)
			case token.GTR:
				return m.strLess(y, x, false)
			case token.GEQ:
				return m.strLess(y, x, true)
			}
			panic(unsupported{"string op " + op.String()})
		}
		if op == token.QUO || op == token.REM {
			if !isFloatT(tx) {
				if asInt64orU(y) == 0 {
					panic(targetPanic{v: runtimeError("integer divide by zero")})
				}
			}
		}
		return cbinop(op, tx, x, y)
	}
	ts := m.ts
	a, b := m.toTerm(x), m.toTerm(y)
	boolT := types.Typ[types.Bool]
	if a.sort.K == SBool {
		switch op {
		case token.LAND, token.AND:
			return m.fromTerm(boolT, ts.And(a, b))
		case token.LOR, token.OR:
			return m.fromTerm(boolT, ts.Or(a, b))
		}
		panic(unsupported{"bool op " + op.String()})
	}
	if a.sort.K == SFP {
		switch op {
		case token.ADD:
			return m.fromTerm(tx, ts.FPBin("fp.add", a, b))
		case token.SUB:
			return m.fromTerm(tx, ts.FPBin("fp.sub", a, b))
		case token.MUL:
			return m.fromTerm(tx, ts.FPBin("fp.mul", a, b))
		case token.QUO:
			return m.fromTerm(tx, ts.FPBin("fp.div", a, b))
		case token.LSS:
			return m.fromTerm(boolT, ts.FPCmp("fp.lt", a, b))
		case token.LEQ:
			return m.fromTerm(boolT, ts.FPCmp("fp.leq", a, b))
		case token.GTR:
			return m.fromTerm(boolT, ts.FPCmp("fp.gt", a, b))
		case token.GEQ:
			return m.fromTerm(boolT, ts.FPCmp("fp.geq", a, b))
		}
		panic(unsupported{"float op " + op.String()})
	}
	uns := isUnsignedT(tx)
	w := a.sort.W
	switch op {
	case token.ADD, token.SUB, token.MUL, token.AND, token.OR, token.XOR:
		return m.fromTerm(tx, ts.BVBin(bvArith[op], a, b))
	case token.AND_NOT:
		return m.fromTerm(tx, ts.BVBin("bvand", a, ts.BVNot(b)))
	case token.QUO, token.REM:
		// division by zero panics
		if m.decide(ts.Eq(b, ts.BVConst(0, w))) {
			panic(targetPanic{v: runtimeError("integer divide by zero")})
		}
		var o string
		switch {
		case op == token.QUO && uns:
			o = "bvudiv"
		case op == token.QUO:
			o = "bvsdiv"
		case uns:
			o = "bvurem"
		default:
			o = "bvsrem"
		}
		return m.fromTerm(tx, ts.BVBin(o, a, b))
	case token.SHL, token.SHR:
		// bring the count to the width of x, saturating
		cw := b.sort.W
		var cnt *Term
		var big *Term = ts.False
		if cw > w {
			big = ts.BVCmp("bvuge", b, ts.BVConst(uint64(w), cw))
			cnt = ts.Extract(w-1, 0, b)
		} else {
			cnt = ts.ZExt(b, w)
		}
		var sh, sat *Term
		switch {
		case op == token.SHL:
			sh, sat = ts.BVBin("bvshl", a, cnt), ts.BVConst(0, w)
		case uns:
			sh, sat = ts.BVBin("bvlshr", a, cnt), ts.BVConst(0, w)
		default:
			sh = ts.BVBin("bvashr", a, cnt)
			sat = ts.BVBin("bvashr", a, ts.BVConst(uint64(w-1), w))
		}
		return m.fromTerm(tx, ts.Ite(big, sat, sh))
	case token.LSS, token.LEQ, token.GTR, token.GEQ:
		var o string
		switch op {
		case token.LSS:
			o = "lt"
		case token.LEQ:
			o = "le"
		case token.GTR:
			o = "gt"
		default:
			o = "ge"
		}
		if uns {
			o = "bvu" + o
		} else {
			o = "bvs" + o
		}
		return m.fromTerm(boolT, ts.BVCmp(o, a, b))
	}
	panic(unsupported{"symbolic binop " + op.String()})
}

func asInt64orU(x value) int64 {
	switch v := x.(type) {
	case float32, float64, complex64, complex128:
		_ = v
		return 1
	}
	return asInt64(x)
}

func (m *Machine) unopSym(op token.Token, t types.Type, x *Sym) value {
	ts := m.ts
	switch op {
	case token.SUB:
		if x.t.sort.K == SFP {
			return &Sym{ts.FPNeg(x.t)}
		}
		return m.fromTerm(t, ts.BVNeg(x.t))
	case token.NOT:
		return m.fromTerm(t, ts.Not(x.t))
	case token.XOR:
		return m.fromTerm(t, ts.BVNot(x.t))
	}
	panic(unsupported{"symbolic unop " + op.String()})
}

// ---- conversions ----

func (m *Machine) conv(tDst, tSrc types.Type, x value) value {
	switch xv := x.(type) {
	case *Sym:
		return m.convSym(tDst, tSrc, xv)
	case sstr:
		switch d := tDst.Underlying().(type) {
		case *types.Basic:
			if d.Kind() == types.String {
				return x
			}
		case *types.Slice:
			if eb := basicOf(d.Elem()); eb != nil && eb.Kind() == types.Byte {
				return []value(append([]value(nil), xv...))
			}
			if eb := basicOf(d.Elem()); eb != nil && eb.Kind() == types.Rune {
				// ASCII assumption for symbolic bytes
				r := make([]value, len(xv))
				for i, b := range xv {
					r[i] = m.byteToRune(b)
				}
				return r
			}
		}
		panic(unsupported{fmt.Sprintf("conversion of symbolic string to %v", tDst)})
	case []value:
		if sl, ok := tSrc.Underlying().(*types.Slice); ok {
			if eb := basicOf(sl.Elem()); eb != nil && isStringT(tDst) {
				if eb.Kind() == types.Byte {
					return normStr(xv)
				}
				// []rune -> string
				hasSym := false
				for _, r := range xv {
					if isSym(r) {
						hasSym = true
					}
				}
				if hasSym {
					bs := make([]value, len(xv))
					for i, r := range xv {
						if s, ok := r.(*Sym); ok {
							bs[i] = &Sym{m.ts.Extract(7, 0, s.t)}
						} else {
							rr := r.(rune)
							if rr >= 0x80 {
								panic(unsupported{"non-ASCII rune next to symbolic runes"})
							}
							bs[i] = byte(rr)
						}
					}
					return normStr(bs)
				}
			}
		}
	case string:
		// string -> []byte handled by cconv but must produce bytes; ok
	}
	return cconv(tDst, tSrc, x)
}

func (m *Machine) byteToRune(b value) value {
	if s, ok := b.(*Sym); ok {
		return &Sym{m.ts.ZExt(s.t, 32)}
	}
	return rune(b.(byte))
}

func (m *Machine) convSym(tDst, tSrc types.Type, x *Sym) value {
	ts := m.ts
	d := basicOf(tDst)
	s := basicOf(tSrc)
	if d == nil || s == nil {
		panic(unsupported{fmt.Sprintf("symbolic conversion %v -> %v", tSrc, tDst)})
	}
	if d.Kind() == types.String {
		// string(rune/byte) of a symbolic value: ASCII assumption
		if x.t.sort.K == SBV {
			return sstr{&Sym{ts.Extract(7, 0, ts.ZExt(x.t, 64))}}
		}
	}
	switch {
	case x.t.sort.K == SBool:
		return x
	case x.t.sort.K == SBV && d.Info()&types.IsInteger != 0:
		w := widthOfKind(d.Kind())
		if s.Info()&types.IsUnsigned != 0 {
			return m.fromTerm(tDst, ts.ZExt(x.t, w))
		}
		return m.fromTerm(tDst, ts.SExt(x.t, w))
	case x.t.sort.K == SBV && d.Info()&types.IsFloat != 0:
		w := 64
		if d.Kind() == types.Float32 {
			w = 32
		}
		return &Sym{ts.IntToFP(x.t, s.Info()&types.IsUnsigned == 0, w)}
	case x.t.sort.K == SFP && d.Info()&types.IsFloat != 0:
		w := 64
		if d.Kind() == types.Float32 {
			w = 32
		}
		return &Sym{ts.FPToFP(x.t, w)}
	case x.t.sort.K == SFP && d.Info()&types.IsInteger != 0:
		w := widthOfKind(d.Kind())
		signed := d.Info()&types.IsUnsigned == 0
		// Go leaves out-of-range float->int conversions implementation-defined; on amd64
		// CVTTSS2SQ yields 0x8000000000000000 for NaN/overflow. Model that for int/int64.
		raw := ts.FPToInt(x.t, signed, w)
		if signed && w == 64 {
			var lo, hi *Term
			if x.t.sort.W == 32 {
				lo, hi = ts.FPConst32(-9223372036854775808.0), ts.FPConst32(9223372036854775808.0)
			} else {
				lo, hi = ts.FPConst64(-9223372036854775808.0), ts.FPConst64(9223372036854775808.0)
			}
			inRange := ts.And(ts.FPCmp("fp.geq", x.t, lo), ts.FPCmp("fp.lt", x.t, hi))
			m.note("implementation-defined float->int conversion reached (amd64 semantics modelled)")
			return m.fromTerm(tDst, ts.Ite(inRange, raw, ts.BVConst(1<<63, 64)))
		}
		return m.fromTerm(tDst, raw)
	}
	panic(unsupported{fmt.Sprintf("symbolic conversion %v -> %v", tSrc, tDst)})
}
