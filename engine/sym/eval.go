package sym

// Concrete evaluation of terms under a model (SMT-LIB semantics). Used to keep one model of
// the current path condition at hand, so that the side of a branch the model satisfies needs
// no feasibility query (only the other side is asked of the solver).

import (
	"fmt"
	"math"
)

func (m *Machine) evalTerm(t *Term) uint64 {
	if t.op == "const" {
		return t.val
	}
	if v, ok := m.evalCache[t.id]; ok {
		return v
	}
	v := m.evalTerm1(t)
	m.evalCache[t.id] = v
	return v
}

func b2u(b bool) uint64 {
	if b {
		return 1
	}
	return 0
}

func fpOf(v uint64, w int) float64 {
	if w == 32 {
		return float64(math.Float32frombits(uint32(v)))
	}
	return math.Float64frombits(v)
}

func fpBits(f float64, w int) uint64 {
	if w == 32 {
		return uint64(math.Float32bits(float32(f)))
	}
	return math.Float64bits(f)
}

func (m *Machine) evalTerm1(t *Term) uint64 {
	a := func(i int) uint64 { return m.evalTerm(t.args[i]) }
	w := t.sort.W
	switch t.op {
	case "var":
		return m.model[t.name] & maskSort(t.sort)
	case "not":
		return 1 - a(0)
	case "and":
		if a(0) == 0 {
			return 0
		}
		return a(1)
	case "or":
		if a(0) == 1 {
			return 1
		}
		return a(1)
	case "ite":
		if a(0) == 1 {
			return a(1)
		}
		return a(2)
	case "=":
		return b2u(a(0) == a(1))
	case "bvadd":
		return (a(0) + a(1)) & mask(w)
	case "bvsub":
		return (a(0) - a(1)) & mask(w)
	case "bvmul":
		return (a(0) * a(1)) & mask(w)
	case "bvand":
		return a(0) & a(1)
	case "bvor":
		return a(0) | a(1)
	case "bvxor":
		return a(0) ^ a(1)
	case "bvnot":
		return ^a(0) & mask(w)
	case "bvneg":
		return (-a(0)) & mask(w)
	case "bvudiv":
		if a(1) == 0 {
			return mask(w)
		}
		return a(0) / a(1)
	case "bvurem":
		if a(1) == 0 {
			return a(0)
		}
		return a(0) % a(1)
	case "bvsdiv":
		x, y := sx(a(0), w), sx(a(1), w)
		if y == 0 {
			if x >= 0 {
				return mask(w)
			}
			return 1
		}
		if y == -1 {
			return uint64(-x) & mask(w)
		}
		return uint64(x/y) & mask(w)
	case "bvsrem":
		x, y := sx(a(0), w), sx(a(1), w)
		if y == 0 {
			return a(0)
		}
		if y == -1 {
			return 0
		}
		return uint64(x%y) & mask(w)
	case "bvshl":
		if a(1) >= uint64(w) {
			return 0
		}
		return (a(0) << a(1)) & mask(w)
	case "bvlshr":
		if a(1) >= uint64(w) {
			return 0
		}
		return a(0) >> a(1)
	case "bvashr":
		sh := a(1)
		if sh >= uint64(w) {
			sh = uint64(w - 1)
		}
		return uint64(sx(a(0), w)>>sh) & mask(w)
	case "bvult":
		return b2u(a(0) < a(1))
	case "bvule":
		return b2u(a(0) <= a(1))
	case "bvugt":
		return b2u(a(0) > a(1))
	case "bvuge":
		return b2u(a(0) >= a(1))
	case "bvslt", "bvsle", "bvsgt", "bvsge":
		ww := t.args[0].sort.W
		x, y := sx(a(0), ww), sx(a(1), ww)
		switch t.op {
		case "bvslt":
			return b2u(x < y)
		case "bvsle":
			return b2u(x <= y)
		case "bvsgt":
			return b2u(x > y)
		default:
			return b2u(x >= y)
		}
	case "extract":
		return (a(0) >> uint(t.p2)) & mask(t.p1-t.p2+1)
	case "zext":
		return a(0)
	case "sext":
		return uint64(sx(a(0), t.args[0].sort.W)) & mask(w)
	case "concat":
		return (a(0)<<uint(t.args[1].sort.W) | a(1)) & mask(w)
	case "fp.add", "fp.sub", "fp.mul", "fp.div":
		aw := t.args[0].sort.W
		if aw == 32 {
			x, y := math.Float32frombits(uint32(a(0))), math.Float32frombits(uint32(a(1)))
			var r float32
			switch t.op {
			case "fp.add":
				r = x + y
			case "fp.sub":
				r = x - y
			case "fp.mul":
				r = x * y
			default:
				r = x / y
			}
			return uint64(math.Float32bits(r))
		}
		x, y := math.Float64frombits(a(0)), math.Float64frombits(a(1))
		var r float64
		switch t.op {
		case "fp.add":
			r = x + y
		case "fp.sub":
			r = x - y
		case "fp.mul":
			r = x * y
		default:
			r = x / y
		}
		return math.Float64bits(r)
	case "fp.neg":
		if w == 32 {
			return a(0) ^ (1 << 31)
		}
		return a(0) ^ (1 << 63)
	case "fp.lt", "fp.leq", "fp.gt", "fp.geq", "fp.eq":
		aw := t.args[0].sort.W
		x, y := fpOf(a(0), aw), fpOf(a(1), aw)
		switch t.op {
		case "fp.lt":
			return b2u(x < y)
		case "fp.leq":
			return b2u(x <= y)
		case "fp.gt":
			return b2u(x > y)
		case "fp.geq":
			return b2u(x >= y)
		default:
			return b2u(x == y)
		}
	case "fp.isNaN":
		x := fpOf(a(0), t.args[0].sort.W)
		return b2u(x != x)
	case "to_fp_signed":
		x := sx(a(0), t.args[0].sort.W)
		if w == 32 {
			return uint64(math.Float32bits(float32(x)))
		}
		return math.Float64bits(float64(x))
	case "to_fp_unsigned":
		x := a(0)
		if w == 32 {
			return uint64(math.Float32bits(float32(x)))
		}
		return math.Float64bits(float64(x))
	case "fp_to_fp":
		return fpBits(fpOf(a(0), t.args[0].sort.W), w)
	case "fp.to_sbv":
		x := fpOf(a(0), t.args[0].sort.W)
		if x != x || x >= 9.3e18 || x <= -9.3e18 {
			return 0 // unspecified in SMT-LIB; callers guard it
		}
		return uint64(int64(x)) & mask(w)
	case "fp.to_ubv":
		x := fpOf(a(0), t.args[0].sort.W)
		if x != x || x >= 1.9e19 || x < 0 {
			return 0
		}
		return uint64(x) & mask(w)
	}
	panic(fmt.Sprintf("evalTerm: unknown op %q", t.op))
}

func maskSort(s Sort) uint64 {
	switch s.K {
	case SBool:
		return 1
	case SBV:
		return mask(s.W)
	}
	if s.W == 32 {
		return mask(32)
	}
	return ^uint64(0)
}

func (m *Machine) setModel(md map[string]uint64) {
	m.model = md
	m.evalCache = map[int]uint64{}
}

// fetchModel reads the values of this path's input variables after a sat answer.
func (m *Machine) fetchModel() map[string]uint64 {
	var terms []*Term
	for _, in := range m.inputs {
		if in.term != nil {
			terms = append(terms, in.term)
		}
	}
	vals, err := m.solver.Values(terms)
	if err != nil {
		return nil
	}
	md := make(map[string]uint64, len(vals))
	for t, v := range vals {
		md[t.name] = v
	}
	return md
}
