package sym

import (
	"fmt"
	"io"
	"os"
	"sort"
	"strings"
	"sync"
	"time"

	"golang.org/x/tools/go/ssa"
)

type Config struct {
	Unwind          int
	MaxSteps        int
	PermuteMaps     int  // fork over all iteration orders of maps with at most this many entries
	CheckAssumes    bool // check feasibility right after each assumption
	StopAtViolation bool
	Workers         int
	SolverTimeoutMs int
	MaxPaths        int
	Solver          string
	WitnessEvery    int // collect a path witness (model) for every n-th path; 0 = none
	MaxWitnesses    int
	MaxViolations   int
	Verbose         bool
	Deadline        time.Time
	Params          map[string]int
	Seed            int
	Paranoid        bool
	OneShot         bool
	Stubs           map[string]string
	FallbackMs      int
}

func DefaultConfig() Config {
	return Config{Unwind: 32, MaxSteps: 20_000_000, CheckAssumes: true, StopAtViolation: true, Workers: 8,
		SolverTimeoutMs: 60000, FallbackMs: 8000, MaxPaths: 2_000_000, Solver: "z3", WitnessEvery: 1, MaxWitnesses: 64, MaxViolations: 8}
}

// Witness is a concrete input vector for one explored path.
type Witness struct {
	Inputs map[string]string `json:"inputs"`
	Events []string          `json:"events"`
	Path   string            `json:"path,omitempty"`
}

type Violation struct {
	AssertID string   `json:"assert_id"`
	Witness  Witness  `json:"witness"`
	Stack    string   `json:"stack,omitempty"`
	Recorded []string `json:"recorded,omitempty"`
}

type Report struct {
	Entry          string
	Stats          Stats
	Violations     []Violation
	Inconclusive   []string
	Witnesses      []Witness
	Funcs          []string
	Stubs          map[string]int
	Notes          map[string]int
	Reached        map[string]int
	Queries        int
	SolverTime     time.Duration
	Wall           time.Duration
	SolverErrors   []string
	UnknownBranch  int
	PathLimit      bool
	TimedOut       bool
	OneShots       int
	SolverTimeouts int
	BranchStats    map[string][2]int
}

type workItem struct {
	prefix  []decision
	model   map[string]uint64 // a model of the prefix's path condition (nil: unknown)
	modelOK bool
}

type Explorer struct {
	P     *Program
	Cfg   Config
	Entry *ssa.Function

	mu      sync.Mutex
	cond    *sync.Cond
	work    []workItem
	active  int
	stop    bool
	rep     *Report
	seenInc map[string]bool
	paths   int
	nlog    int
}

func NewExplorer(p *Program, entry *ssa.Function, cfg Config) *Explorer {
	e := &Explorer{P: p, Cfg: cfg, Entry: entry, seenInc: map[string]bool{}}
	e.cond = sync.NewCond(&e.mu)
	e.rep = &Report{Entry: entry.String(), Stubs: map[string]int{}, Notes: map[string]int{}, Reached: map[string]int{}}
	return e
}

func (e *Explorer) Run() *Report {
	t0 := time.Now()
	e.work = []workItem{{model: map[string]uint64{}, modelOK: true}}
	var wg sync.WaitGroup
	funcs := map[string]bool{}
	var fmu sync.Mutex
	for w := 0; w < e.Cfg.Workers; w++ {
		wg.Add(1)
		go func(id int) {
			defer wg.Done()
			m, err := e.newMachine()
			if err != nil {
				e.mu.Lock()
				e.rep.Inconclusive = append(e.rep.Inconclusive, "cannot start solver: "+err.Error())
				e.stop = true
				e.cond.Broadcast()
				e.mu.Unlock()
				return
			}
			defer m.solver.Close()
			e.worker(m)
			fmu.Lock()
			for f := range m.funcsHit {
				funcs[f.String()] = true
			}
			e.rep.OneShots += m.solver.OneShots
			e.rep.SolverTimeouts += m.solver.Timeouts
			e.rep.Queries += m.solver.Queries
			e.rep.SolverTime += m.solver.Time
			e.rep.SolverErrors = append(e.rep.SolverErrors, m.solver.Errors...)
			e.rep.UnknownBranch += m.unknownBr
			for k, v := range m.stubsHit {
				e.rep.Stubs[k] += v
			}
			for k, v := range m.notes {
				e.rep.Notes[k] += v
			}
			if m.BranchStats != nil {
				if e.rep.BranchStats == nil {
					e.rep.BranchStats = map[string][2]int{}
				}
				for k, v := range m.BranchStats {
					x := e.rep.BranchStats[k]
					x[0] += v[0]
					x[1] += v[1]
					e.rep.BranchStats[k] = x
				}
			}
			s := &e.rep.Stats
			s.Paths += m.st.Paths
			s.Pruned += m.st.Pruned
			s.Decisions += m.st.Decisions
			s.Forks += m.st.Forks
			s.Asserts += m.st.Asserts
			s.AssertQueries += m.st.AssertQueries
			s.UnwindExceeded += m.st.UnwindExceeded
			s.Steps += m.st.Steps
			fmu.Unlock()
		}(w)
	}
	wg.Wait()
	for f := range funcs {
		e.rep.Funcs = append(e.rep.Funcs, f)
	}
	sort.Strings(e.rep.Funcs)
	e.rep.Stats.Violations = len(e.rep.Violations)
	e.rep.Stats.Inconclusive = len(e.rep.Inconclusive)
	e.rep.Wall = time.Since(t0)
	return e.rep
}

func (e *Explorer) newMachine() (*Machine, error) {
	var logw io.Writer
	if d := os.Getenv("VCHECK_SMTLOG"); d != "" {
		e.mu.Lock()
		e.nlog++
		f, _ := os.Create(fmt.Sprintf("%s/worker%d.smt2", d, e.nlog))
		e.mu.Unlock()
		logw = f
	}
	s, err := StartSolver(SolverByName(e.Cfg.Solver, e.Cfg.SolverTimeoutMs), logw)
	if err != nil {
		return nil, err
	}
	s.OneShot = e.Cfg.OneShot
	s.FallbackMs = e.Cfg.FallbackMs
	cfg := e.Cfg
	m := &Machine{P: e.P, ts: NewTermStore(), solver: s, cfg: &cfg,
		globals: map[*ssa.Global]*value{}, inited: map[*ssa.Package]bool{}, extCache: map[*ssa.Function]externalFn{},
		funcsHit: map[*ssa.Function]bool{}, stubsHit: map[string]int{}, notes: map[string]int{}}
	m.exp = e
	if e.Cfg.Verbose {
		m.BranchStats = map[string][2]int{}
	}
	return m, nil
}

func (e *Explorer) worker(m *Machine) {
	for {
		e.mu.Lock()
		for len(e.work) == 0 && e.active > 0 && !e.stop {
			e.cond.Wait()
		}
		if e.stop || len(e.work) == 0 {
			e.cond.Broadcast()
			e.mu.Unlock()
			return
		}
		item := e.work[len(e.work)-1]
		e.work = e.work[:len(e.work)-1]
		e.active++
		e.paths++
		n := e.paths
		if n > e.Cfg.MaxPaths {
			e.rep.PathLimit = true
			e.stop = true
		}
		if !e.Cfg.Deadline.IsZero() && time.Now().After(e.Cfg.Deadline) {
			e.rep.TimedOut = true
			e.stop = true
		}
		e.mu.Unlock()

		m.runPath(e.Entry, item, n)

		e.mu.Lock()
		e.work = append(e.work, m.newItems...)
		m.newItems = nil
		e.active--
		e.cond.Broadcast()
		e.mu.Unlock()
	}
}

func (e *Explorer) addViolation(v Violation) {
	e.mu.Lock()
	defer e.mu.Unlock()
	if len(e.rep.Violations) < e.Cfg.MaxViolations {
		e.rep.Violations = append(e.rep.Violations, v)
	}
	if e.Cfg.MaxViolations > 0 && len(e.rep.Violations) >= e.Cfg.MaxViolations {
		e.stop = true
	}
}

func (e *Explorer) addInconclusive(msg string) {
	e.mu.Lock()
	defer e.mu.Unlock()
	if !e.seenInc[msg] {
		e.seenInc[msg] = true
		if len(e.rep.Inconclusive) < 50 {
			e.rep.Inconclusive = append(e.rep.Inconclusive, msg)
		}
	}
}

func (e *Explorer) addWitness(w Witness) {
	e.mu.Lock()
	defer e.mu.Unlock()
	if len(e.rep.Witnesses) < e.Cfg.MaxWitnesses {
		e.rep.Witnesses = append(e.rep.Witnesses, w)
	}
}

func (e *Explorer) addReached(events []string) {
	e.mu.Lock()
	defer e.mu.Unlock()
	for _, ev := range events {
		if strings.HasPrefix(ev, "reach:") {
			e.rep.Reached[ev[6:]]++
		}
	}
}

// ---- per path ----

func (m *Machine) resetPath(item workItem) {
	prefix := item.prefix
	m.prefix = prefix
	m.pendingModel = item.model
	m.modelActive = false
	m.setModel(nil)
	m.path = m.path[:0]
	m.inputs = nil
	m.nameCount = map[string]int{}
	m.events = nil
	m.recorded = nil
	m.steps = 0
	m.depth = 0
	m.locksHeld = map[*value]int{}
	m.lastMono = nil
	m.wallAt = map[int][2]value{}
	m.facts = map[int]bool{}
	m.newItems = nil
	m.lastStack = ""
	m.panicStack = ""
	// bring the solver stack to the common prefix
	L := 0
	for L < len(m.solverPath) && L < len(prefix) && sameDecision(m.solverPath[L], prefix[L]) {
		L++
	}
	m.solver.Pop(len(m.solverPath) - L)
	m.solverPath = m.solverPath[:L]
}

func pathString(p []decision) string {
	var sb strings.Builder
	for _, d := range p {
		switch d.kind {
		case 0:
			if d.taken == 1 {
				sb.WriteByte('T')
			} else {
				sb.WriteByte('F')
			}
		case 1:
			fmt.Fprintf(&sb, "c%d", d.taken)
		case 2:
			sb.WriteByte('a')
		}
	}
	return sb.String()
}

func (m *Machine) modelWitness() (Witness, error) {
	w := Witness{Inputs: map[string]string{}, Events: append([]string(nil), m.events...), Path: pathString(m.path)}
	var terms []*Term
	for _, in := range m.inputs {
		if in.term != nil {
			terms = append(terms, in.term)
		}
	}
	vals, err := m.solver.Values(terms)
	if err != nil {
		return w, err
	}
	for _, in := range m.inputs {
		if in.term == nil {
			w.Inputs[in.Name] = fmt.Sprint(in.cval)
			continue
		}
		v := vals[in.term]
		if in.Signed {
			w.Inputs[in.Name] = fmt.Sprint(sx(v, in.Bits))
		} else {
			w.Inputs[in.Name] = fmt.Sprint(v)
		}
	}
	return w, nil
}

func (m *Machine) witnessFromModel() Witness {
	w := Witness{Inputs: map[string]string{}, Events: append([]string(nil), m.events...), Path: pathString(m.path)}
	for _, in := range m.inputs {
		if in.term == nil {
			w.Inputs[in.Name] = fmt.Sprint(in.cval)
			continue
		}
		v := m.model[in.term.name] & maskSort(in.term.sort)
		if in.Signed {
			w.Inputs[in.Name] = fmt.Sprint(sx(v, in.Bits))
		} else {
			w.Inputs[in.Name] = fmt.Sprint(v)
		}
	}
	return w
}

func (e *Explorer) wantWitness() bool {
	e.mu.Lock()
	defer e.mu.Unlock()
	return len(e.rep.Witnesses) < e.Cfg.MaxWitnesses
}

// checkWithModel checks stack ∧ t and, when sat, extracts the input model.
func (m *Machine) checkWithModel(t *Term) (Result, *Witness) {
	s := m.solver
	s.Push()
	s.Assert(t)
	r := s.Check()
	var w *Witness
	if r == Sat {
		ww, err := m.modelWitness()
		if err != nil {
			m.inconclusive("model extraction failed: "+err.Error(), nil)
		} else {
			w = &ww
		}
	}
	s.Pop(1)
	return r, w
}

func (m *Machine) violation(id string, w *Witness, fr *frame) {
	if w == nil {
		// concrete failure: any model of the path condition is a witness
		r := m.solver.Check()
		if r == Sat {
			ww, err := m.modelWitness()
			if err == nil {
				w = &ww
			}
		}
		if w == nil {
			m.inconclusive(fmt.Sprintf("assertion %s failed concretely but the path condition has no model (%v)", id, r), fr)
			return
		}
	}
	m.st.Violations++
	v := Violation{AssertID: id, Witness: *w, Recorded: append([]string(nil), m.recorded...)}
	if fr != nil {
		v.Stack = m.targetStack(fr)
	}
	m.exp.addViolation(v)
}

func (m *Machine) inconclusive(msg string, fr *frame) {
	m.st.Inconclusive++
	if fr != nil {
		msg += "\n" + m.targetStack(fr)
	}
	m.exp.addInconclusive(msg)
}

func (m *Machine) runPath(entry *ssa.Function, item workItem, seq int) {
	m.resetPath(item)
	defer func() {
		m.st.Steps += int64(m.steps)
		p := recover()
		if p == nil {
			return
		}
		switch x := p.(type) {
		case pathEnd:
			switch x.kind {
			case "assume":
				m.st.Pruned++
			case "violation":
				m.st.Paths++
			case "unwind", "budget":
				m.st.Paths++
				m.exp.addInconclusive(x.kind + ": " + x.msg)
			}
		case unsupported:
			m.st.Paths++
			m.exp.addInconclusive("unsupported: " + x.msg + "\n" + m.lastStack)
		case targetPanic:
			m.st.Paths++
			msg := toString(x.v)
			if itf, ok := x.v.(iface); ok {
				if s, ok := itf.v.(string); ok {
					msg = s
				}
			}
			m.events = append(m.events, "panic")
			m.recorded = append(m.recorded, "panic: "+msg, "stack:\n"+m.panicStack)
			m.violation("go-panic", nil, nil)
		default:
			m.st.Paths++
			st := stackOf()
			if i := strings.Index(st, "\n"); i >= 0 {
				st = st[i+1:] // drop the goroutine id so identical errors collapse
			}
			if len(st) > 3000 {
				st = st[:3000]
			}
			m.exp.addInconclusive(fmt.Sprintf("engine error: %v\n%s\n%s", p, m.lastStack, st))
		}
	}()
	if entry.Pkg != nil && !m.inited[entry.Pkg] {
		m.inInit = true
		m.ensureInit(entry.Pkg)
		m.inInit = false
		if len(m.path) != 0 {
			panic("engine: package initialisation took symbolic decisions")
		}
	}
	m.call(nil, 0, entry, nil)
	if len(m.path) < len(m.prefix) {
		panic(fmt.Sprintf("engine: path ended after %d decisions but prefix has %d (nondeterministic re-execution)", len(m.path), len(m.prefix)))
	}
	m.st.Paths++
	m.exp.addReached(m.events)
	if m.cfg.WitnessEvery > 0 && seq%m.cfg.WitnessEvery == 0 && m.exp.wantWitness() {
		m.activateModel()
		if m.model != nil {
			m.exp.addWitness(m.witnessFromModel())
		} else if m.solver.Check() == Sat {
			if w, err := m.modelWitness(); err == nil {
				m.exp.addWitness(w)
			}
		}
	}
	if m.cfg.Verbose && seq%1000 == 0 {
		fmt.Fprintf(os.Stderr, "path %d done: %s\n", seq, pathString(m.path))
	}
}
