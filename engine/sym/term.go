package sym

// Terms: hash-consed SMT expressions over bit-vectors, booleans and IEEE floats.
// One TermStore per worker; terms are rebuilt on every re-execution of a path,
// hash-consing gives them the same id, so a solver sees each definition once.

import (
	"fmt"
	"math"
	"math/big"
	"strings"
)

type SortKind uint8

const (
	SBool SortKind = iota
	SBV
	SFP
)

type Sort struct {
	K SortKind
	W int // BV width, or 32/64 for FP
}

func (s Sort) String() string {
	switch s.K {
	case SBool:
		return "Bool"
	case SBV:
		return fmt.Sprintf("(_ BitVec %d)", s.W)
	case SFP:
		if s.W == 32 {
			return "(_ FloatingPoint 8 24)"
		}
		return "(_ FloatingPoint 11 53)"
	}
	return "?"
}

var BoolSort = Sort{SBool, 0}

func BV(w int) Sort { return Sort{SBV, w} }
func FP(w int) Sort { return Sort{SFP, w} }

type Term struct {
	id   int
	op   string
	args []*Term
	sort Sort
	val  uint64 // const value (bv: masked; bool: 0/1; fp: IEEE bits)
	name string // var name
	p1   int
	p2   int
	// abstract value of bit-vector terms: known-zero / known-one bits and unsigned range
	kz, ko uint64
	lo, hi uint64
	lin    *linForm // canonical linear form of arithmetic terms (nil: the term is an atom)
}

// linForm is sum(coef[i]*atoms[i]) + c in the ring of integers mod 2^w; atoms sorted by id.
type linForm struct {
	atoms []*Term
	coef  []uint64
	c     uint64
}

func (t *Term) IsConst() bool { return t.op == "const" }
func (t *Term) Sort() Sort    { return t.sort }
func (t *Term) ID() int       { return t.id }

type TermStore struct {
	tab   map[string]*Term
	all   []*Term
	vars  []*Term
	True  *Term
	False *Term
}

func NewTermStore() *TermStore {
	ts := &TermStore{tab: map[string]*Term{}}
	ts.True = ts.mk(&Term{op: "const", sort: BoolSort, val: 1})
	ts.False = ts.mk(&Term{op: "const", sort: BoolSort, val: 0})
	return ts
}

func (ts *TermStore) key(t *Term) string {
	var sb strings.Builder
	sb.WriteString(t.op)
	fmt.Fprintf(&sb, "|%d.%d|%d|%s|%d|%d", t.sort.K, t.sort.W, t.val, t.name, t.p1, t.p2)
	for _, a := range t.args {
		fmt.Fprintf(&sb, ",%d", a.id)
	}
	return sb.String()
}

func (ts *TermStore) mk(t *Term) *Term {
	k := ts.key(t)
	if e, ok := ts.tab[k]; ok {
		return e
	}
	t.id = len(ts.all)
	if t.sort.K == SBV {
		absInfo(t)
		if t.lo == t.hi && t.op != "const" {
			// the abstraction pins the value: fold to a constant
			c := ts.BVConst(t.lo, t.sort.W)
			ts.tab[k] = c
			return c
		}
	}
	ts.all = append(ts.all, t)
	ts.tab[k] = t
	if t.op == "var" {
		ts.vars = append(ts.vars, t)
	}
	return t
}

func mask(w int) uint64 {
	if w >= 64 {
		return ^uint64(0)
	}
	return (uint64(1) << uint(w)) - 1
}

func (ts *TermStore) Var(name string, s Sort) *Term {
	return ts.mk(&Term{op: "var", sort: s, name: name})
}

func (ts *TermStore) BVConst(v uint64, w int) *Term {
	return ts.mk(&Term{op: "const", sort: BV(w), val: v & mask(w)})
}

func (ts *TermStore) BoolConst(b bool) *Term {
	if b {
		return ts.True
	}
	return ts.False
}

func (ts *TermStore) FPConst32(f float32) *Term {
	return ts.mk(&Term{op: "const", sort: FP(32), val: uint64(math.Float32bits(f))})
}
func (ts *TermStore) FPConst64(f float64) *Term {
	return ts.mk(&Term{op: "const", sort: FP(64), val: math.Float64bits(f)})
}

func sx(v uint64, w int) int64 {
	if w >= 64 {
		return int64(v)
	}
	sh := uint(64 - w)
	return int64(v<<sh) >> sh
}

// ---- boolean builders ----

func (ts *TermStore) Not(a *Term) *Term {
	if a.IsConst() {
		return ts.BoolConst(a.val == 0)
	}
	if a.op == "not" {
		return a.args[0]
	}
	return ts.mk(&Term{op: "not", sort: BoolSort, args: []*Term{a}})
}

func (ts *TermStore) And(a, b *Term) *Term {
	if a.IsConst() {
		if a.val == 0 {
			return ts.False
		}
		return b
	}
	if b.IsConst() {
		if b.val == 0 {
			return ts.False
		}
		return a
	}
	if a == b {
		return a
	}
	return ts.mk(&Term{op: "and", sort: BoolSort, args: []*Term{a, b}})
}

func (ts *TermStore) Or(a, b *Term) *Term {
	if a.IsConst() {
		if a.val == 1 {
			return ts.True
		}
		return b
	}
	if b.IsConst() {
		if b.val == 1 {
			return ts.True
		}
		return a
	}
	if a == b {
		return a
	}
	return ts.mk(&Term{op: "or", sort: BoolSort, args: []*Term{a, b}})
}

func (ts *TermStore) Ite(c, a, b *Term) *Term {
	if c.IsConst() {
		if c.val == 1 {
			return a
		}
		return b
	}
	if a == b {
		return a
	}
	if a.sort.K == SBool && a.IsConst() && b.IsConst() {
		if a.val == 1 && b.val == 0 {
			return c
		}
		if a.val == 0 && b.val == 1 {
			return ts.Not(c)
		}
	}
	return ts.mk(&Term{op: "ite", sort: a.sort, args: []*Term{c, a, b}})
}

func (ts *TermStore) Eq(a, b *Term) *Term {
	if a == b && a.sort.K != SFP {
		return ts.True
	}
	if a.IsConst() && b.IsConst() && a.sort.K != SFP {
		return ts.BoolConst(a.val == b.val)
	}
	if a.sort.K == SFP {
		return ts.mk(&Term{op: "fp.eq", sort: BoolSort, args: []*Term{a, b}})
	}
	if a.sort.K == SBV {
		if a.hi < b.lo || b.hi < a.lo || a.ko&b.kz != 0 || a.kz&b.ko != 0 {
			return ts.False
		}
		if a.lin != nil || b.lin != nil {
			// a == b  <=>  a - b == 0 (exact in modular arithmetic); canonical sign
			w := a.sort.W
			d := linAdd(ts.linOf(a), ts.linOf(b), mask(w), w)
			if len(d.atoms) > 0 && d.coef[0] > mask(w)>>1 {
				d = linScale(d, mask(w), w)
			}
			lo, hi := linMathRange(d, w)
			if lo.Sign() > 0 || hi.Sign() < 0 {
				// no multiple of 2^w inside the range?
				if new(big.Int).Sub(hi, lo).Cmp(twoPow(w)) < 0 && !rangeHasMultiple(lo, hi, w) {
					return ts.False
				}
			}
			dt := ts.fromLin(d, w)
			if dt.IsConst() {
				return ts.BoolConst(dt.val == 0)
			}
			z := ts.BVConst(0, w)
			return ts.mk(&Term{op: "=", sort: BoolSort, args: []*Term{z, dt}})
		}
	}
	if a.sort.K == SBool {
		if a.IsConst() {
			if a.val == 1 {
				return b
			}
			return ts.Not(b)
		}
		if b.IsConst() {
			if b.val == 1 {
				return a
			}
			return ts.Not(a)
		}
	}
	if a.id > b.id {
		a, b = b, a
	}
	return ts.mk(&Term{op: "=", sort: BoolSort, args: []*Term{a, b}})
}

// ---- bit-vector builders ----

func (ts *TermStore) BVBin(op string, a, b *Term) *Term {
	w := a.sort.W
	if a.sort != b.sort {
		panic(fmt.Sprintf("BVBin %s: sort mismatch %v %v", op, a.sort, b.sort))
	}
	if a.IsConst() && b.IsConst() {
		x, y := a.val, b.val
		switch op {
		case "bvadd":
			return ts.BVConst(x+y, w)
		case "bvsub":
			return ts.BVConst(x-y, w)
		case "bvmul":
			return ts.BVConst(x*y, w)
		case "bvand":
			return ts.BVConst(x&y, w)
		case "bvor":
			return ts.BVConst(x|y, w)
		case "bvxor":
			return ts.BVConst(x^y, w)
		case "bvudiv":
			if y != 0 {
				return ts.BVConst(x/y, w)
			}
		case "bvurem":
			if y != 0 {
				return ts.BVConst(x%y, w)
			}
		case "bvsdiv":
			if y != 0 {
				return ts.BVConst(uint64(sx(x, w)/sx(y, w)), w)
			}
		case "bvsrem":
			if y != 0 {
				return ts.BVConst(uint64(sx(x, w)%sx(y, w)), w)
			}
		case "bvshl":
			if y >= uint64(w) {
				return ts.BVConst(0, w)
			}
			return ts.BVConst(x<<y, w)
		case "bvlshr":
			if y >= uint64(w) {
				return ts.BVConst(0, w)
			}
			return ts.BVConst(x>>y, w)
		case "bvashr":
			if y >= uint64(w) {
				y = uint64(w - 1)
			}
			return ts.BVConst(uint64(sx(x, w)>>y), w)
		}
	}
	switch op {
	case "bvadd":
		return ts.fromLin(linAdd(ts.linOf(a), ts.linOf(b), 1, w), w)
	case "bvsub":
		return ts.fromLin(linAdd(ts.linOf(a), ts.linOf(b), mask(w), w), w)
	case "bvmul":
		if a.IsConst() {
			return ts.fromLin(linScale(ts.linOf(b), a.val, w), w)
		}
		if b.IsConst() {
			return ts.fromLin(linScale(ts.linOf(a), b.val, w), w)
		}
	}
	// narrow multiplications and divisions of small non-negative values: the bit-blasted
	// circuit of a 64-bit divider is what makes these queries slow, not the values
	if t := ts.narrowArith(op, a, b); t != nil {
		return t
	}
	// light identities
	switch op {
	case "bvadd", "bvor", "bvxor":
		if a.IsConst() && a.val == 0 {
			return b
		}
		if b.IsConst() && b.val == 0 {
			return a
		}
	case "bvsub", "bvshl", "bvlshr", "bvashr":
		if b.IsConst() && b.val == 0 {
			return a
		}
	case "bvand":
		if a.IsConst() && a.val == 0 || b.IsConst() && b.val == 0 {
			return ts.BVConst(0, w)
		}
		if a.IsConst() && a.val == mask(w) {
			return b
		}
		if b.IsConst() && b.val == mask(w) {
			return a
		}
	case "bvmul":
		if a.IsConst() && a.val == 1 {
			return b
		}
		if b.IsConst() && b.val == 1 {
			return a
		}
	}
	return ts.mk(&Term{op: op, sort: a.sort, args: []*Term{a, b}})
}

func (ts *TermStore) BVCmp(op string, a, b *Term) *Term {
	if a.sort != b.sort {
		panic(fmt.Sprintf("BVCmp %s: sort mismatch %v %v", op, a.sort, b.sort))
	}
	w := a.sort.W
	if a.IsConst() && b.IsConst() {
		x, y := a.val, b.val
		switch op {
		case "bvult":
			return ts.BoolConst(x < y)
		case "bvule":
			return ts.BoolConst(x <= y)
		case "bvugt":
			return ts.BoolConst(x > y)
		case "bvuge":
			return ts.BoolConst(x >= y)
		case "bvslt":
			return ts.BoolConst(sx(x, w) < sx(y, w))
		case "bvsle":
			return ts.BoolConst(sx(x, w) <= sx(y, w))
		case "bvsgt":
			return ts.BoolConst(sx(x, w) > sx(y, w))
		case "bvsge":
			return ts.BoolConst(sx(x, w) >= sx(y, w))
		}
	}
	if a == b {
		switch op {
		case "bvult", "bvugt", "bvslt", "bvsgt":
			return ts.False
		default:
			return ts.True
		}
	}
	if r, ok := cmpByRange(op, a, b); ok {
		return ts.BoolConst(r)
	}
	if t := ts.cmpLinear(op, a, b); t != nil {
		return t
	}
	return ts.mk(&Term{op: op, sort: BoolSort, args: []*Term{a, b}})
}

func (ts *TermStore) BVNeg(a *Term) *Term {
	if a.IsConst() {
		return ts.BVConst(-a.val, a.sort.W)
	}
	return ts.fromLin(linScale(ts.linOf(a), mask(a.sort.W), a.sort.W), a.sort.W)
}

func (ts *TermStore) BVNot(a *Term) *Term {
	if a.IsConst() {
		return ts.BVConst(^a.val, a.sort.W)
	}
	return ts.mk(&Term{op: "bvnot", sort: a.sort, args: []*Term{a}})
}

func (ts *TermStore) Extract(hi, lo int, a *Term) *Term {
	if hi == a.sort.W-1 && lo == 0 {
		return a
	}
	if a.IsConst() {
		return ts.BVConst(a.val>>uint(lo), hi-lo+1)
	}
	if (a.op == "zext" || a.op == "sext") && hi < a.args[0].sort.W {
		return ts.Extract(hi, lo, a.args[0])
	}
	if a.op == "zext" && lo == 0 && hi >= a.args[0].sort.W {
		return ts.ZExt(a.args[0], hi+1)
	}
	return ts.mk(&Term{op: "extract", sort: BV(hi - lo + 1), args: []*Term{a}, p1: hi, p2: lo})
}

func (ts *TermStore) ZExt(a *Term, w int) *Term {
	if w == a.sort.W {
		return a
	}
	if w < a.sort.W {
		return ts.Extract(w-1, 0, a)
	}
	if a.IsConst() {
		return ts.BVConst(a.val, w)
	}
	return ts.mk(&Term{op: "zext", sort: BV(w), args: []*Term{a}, p1: w - a.sort.W})
}

func (ts *TermStore) SExt(a *Term, w int) *Term {
	if w == a.sort.W {
		return a
	}
	if w < a.sort.W {
		return ts.Extract(w-1, 0, a)
	}
	if a.IsConst() {
		return ts.BVConst(uint64(sx(a.val, a.sort.W)), w)
	}
	return ts.mk(&Term{op: "sext", sort: BV(w), args: []*Term{a}, p1: w - a.sort.W})
}

func (ts *TermStore) Concat(a, b *Term) *Term {
	w := a.sort.W + b.sort.W
	if a.IsConst() && b.IsConst() && w <= 64 {
		return ts.BVConst(a.val<<uint(b.sort.W)|b.val, w)
	}
	return ts.mk(&Term{op: "concat", sort: BV(w), args: []*Term{a, b}})
}

// ---- floating point ----

func (ts *TermStore) FPBin(op string, a, b *Term) *Term {
	if a.IsConst() && b.IsConst() {
		if a.sort.W == 32 {
			x, y := math.Float32frombits(uint32(a.val)), math.Float32frombits(uint32(b.val))
			switch op {
			case "fp.add":
				return ts.FPConst32(x + y)
			case "fp.sub":
				return ts.FPConst32(x - y)
			case "fp.mul":
				return ts.FPConst32(x * y)
			case "fp.div":
				return ts.FPConst32(x / y)
			}
		} else {
			x, y := math.Float64frombits(a.val), math.Float64frombits(b.val)
			switch op {
			case "fp.add":
				return ts.FPConst64(x + y)
			case "fp.sub":
				return ts.FPConst64(x - y)
			case "fp.mul":
				return ts.FPConst64(x * y)
			case "fp.div":
				return ts.FPConst64(x / y)
			}
		}
	}
	return ts.mk(&Term{op: op, sort: a.sort, args: []*Term{a, b}})
}

func (ts *TermStore) FPCmp(op string, a, b *Term) *Term {
	return ts.mk(&Term{op: op, sort: BoolSort, args: []*Term{a, b}})
}

func (ts *TermStore) FPNeg(a *Term) *Term {
	return ts.mk(&Term{op: "fp.neg", sort: a.sort, args: []*Term{a}})
}

// IntToFP converts a bit-vector (signed or unsigned) to a float, RNE.
func (ts *TermStore) IntToFP(a *Term, signed bool, w int) *Term {
	op := "to_fp_unsigned"
	if signed {
		op = "to_fp_signed"
	}
	return ts.mk(&Term{op: op, sort: FP(w), args: []*Term{a}})
}

// FPToFP converts between float widths, RNE.
func (ts *TermStore) FPToFP(a *Term, w int) *Term {
	if a.sort.W == w {
		return a
	}
	return ts.mk(&Term{op: "fp_to_fp", sort: FP(w), args: []*Term{a}})
}

// FPToInt converts a float to a bit-vector of width w with truncation (RTZ).
// Out-of-range / NaN inputs are unspecified in SMT-LIB; callers add the amd64 fix-up.
func (ts *TermStore) FPToInt(a *Term, signed bool, w int) *Term {
	op := "fp.to_ubv"
	if signed {
		op = "fp.to_sbv"
	}
	return ts.mk(&Term{op: op, sort: BV(w), args: []*Term{a}, p1: w})
}

func (ts *TermStore) FPIsNaN(a *Term) *Term {
	return ts.mk(&Term{op: "fp.isNaN", sort: BoolSort, args: []*Term{a}})
}

// ---- printing ----

func (t *Term) ref() string {
	switch t.op {
	case "const":
		switch t.sort.K {
		case SBool:
			if t.val == 1 {
				return "true"
			}
			return "false"
		case SBV:
			if t.sort.W%4 == 0 {
				return fmt.Sprintf("#x%0*x", t.sort.W/4, t.val)
			}
			return fmt.Sprintf("#b%0*b", t.sort.W, t.val)
		case SFP:
			if t.sort.W == 32 {
				return fmt.Sprintf("((_ to_fp 8 24) #x%08x)", uint32(t.val))
			}
			return fmt.Sprintf("((_ to_fp 11 53) #x%016x)", t.val)
		}
	case "var":
		return "|" + t.name + "|"
	}
	return fmt.Sprintf("t%d", t.id)
}

func (t *Term) body() string {
	a := func(i int) string { return t.args[i].ref() }
	switch t.op {
	case "extract":
		return fmt.Sprintf("((_ extract %d %d) %s)", t.p1, t.p2, a(0))
	case "zext":
		return fmt.Sprintf("((_ zero_extend %d) %s)", t.p1, a(0))
	case "sext":
		return fmt.Sprintf("((_ sign_extend %d) %s)", t.p1, a(0))
	case "to_fp_signed":
		return fmt.Sprintf("((_ to_fp %s) RNE %s)", fpDims(t.sort.W), a(0))
	case "to_fp_unsigned":
		return fmt.Sprintf("((_ to_fp_unsigned %s) RNE %s)", fpDims(t.sort.W), a(0))
	case "fp_to_fp":
		return fmt.Sprintf("((_ to_fp %s) RNE %s)", fpDims(t.sort.W), a(0))
	case "fp.to_sbv":
		return fmt.Sprintf("((_ fp.to_sbv %d) RTZ %s)", t.p1, a(0))
	case "fp.to_ubv":
		return fmt.Sprintf("((_ fp.to_ubv %d) RTZ %s)", t.p1, a(0))
	case "fp.add", "fp.sub", "fp.mul", "fp.div":
		return fmt.Sprintf("(%s RNE %s %s)", t.op, a(0), a(1))
	}
	var sb strings.Builder
	sb.WriteByte('(')
	sb.WriteString(t.op)
	for i := range t.args {
		sb.WriteByte(' ')
		sb.WriteString(a(i))
	}
	sb.WriteByte(')')
	return sb.String()
}

func fpDims(w int) string {
	if w == 32 {
		return "8 24"
	}
	return "11 53"
}

// ---- abstract domain: known bits + unsigned interval ----

func bitLen(x uint64) int {
	n := 0
	for x != 0 {
		n++
		x >>= 1
	}
	return n
}

func absInfo(t *Term) {
	w := t.sort.W
	mk := mask(w)
	t.kz, t.ko, t.lo, t.hi = 0, 0, 0, mk
	arg := func(i int) *Term { return t.args[i] }
	switch t.op {
	case "const":
		t.kz, t.ko, t.lo, t.hi = ^t.val&mk, t.val, t.val, t.val
		return
	case "zext":
		a := arg(0)
		t.kz = a.kz | (mk &^ mask(a.sort.W))
		t.ko = a.ko
		t.lo, t.hi = a.lo, a.hi
	case "sext":
		a := arg(0)
		aw := a.sort.W
		sign := uint64(1) << uint(aw-1)
		high := mk &^ mask(aw)
		switch {
		case a.kz&sign != 0:
			t.kz, t.ko, t.lo, t.hi = a.kz|high, a.ko, a.lo, a.hi
		case a.ko&sign != 0:
			t.kz, t.ko = a.kz, a.ko|high
		default:
			t.kz, t.ko = a.kz&mask(aw-1), a.ko&mask(aw-1)
		}
	case "extract":
		a := arg(0)
		t.kz = (a.kz >> uint(t.p2)) & mk
		t.ko = (a.ko >> uint(t.p2)) & mk
		if t.p2 == 0 && a.hi <= mk {
			t.lo, t.hi = a.lo, a.hi
		}
	case "concat":
		a, b := arg(0), arg(1)
		if w <= 64 {
			bw := uint(b.sort.W)
			t.kz = (a.kz<<bw | b.kz) & mk
			t.ko = (a.ko<<bw | b.ko) & mk
		}
	case "bvand":
		a, b := arg(0), arg(1)
		t.ko = a.ko & b.ko
		t.kz = a.kz | b.kz
		t.hi = a.hi
		if b.hi < t.hi {
			t.hi = b.hi
		}
	case "bvor":
		a, b := arg(0), arg(1)
		t.ko = a.ko | b.ko
		t.kz = a.kz & b.kz
		t.lo = a.lo
		if b.lo > t.lo {
			t.lo = b.lo
		}
	case "bvxor":
		a, b := arg(0), arg(1)
		t.ko = (a.ko & b.kz) | (a.kz & b.ko)
		t.kz = (a.kz & b.kz) | (a.ko & b.ko)
	case "bvnot":
		a := arg(0)
		t.kz, t.ko = a.ko, a.kz
	case "bvshl":
		a, b := arg(0), arg(1)
		if b.IsConst() && b.val < uint64(w) {
			c := uint(b.val)
			t.kz = (a.kz<<c | mask(int(c))) & mk
			t.ko = (a.ko << c) & mk
		}
	case "bvlshr":
		a, b := arg(0), arg(1)
		if b.IsConst() && b.val < uint64(w) {
			c := uint(b.val)
			t.kz = (a.kz >> c) | (mk &^ mask(w-int(c)))
			t.ko = a.ko >> c
			t.lo, t.hi = a.lo>>c, a.hi>>c
		}
	case "bvadd":
		a, b := arg(0), arg(1)
		if s := a.hi + b.hi; s >= a.hi && s <= mk {
			t.lo, t.hi = a.lo+b.lo, s
		}
	case "bvsub":
		a, b := arg(0), arg(1)
		if a.lo >= b.hi {
			t.lo, t.hi = a.lo-b.hi, a.hi-b.lo
		}
	case "bvmul":
		a, b := arg(0), arg(1)
		if a.hi == 0 || b.hi <= mk/a.hi {
			t.lo, t.hi = a.lo*b.lo, a.hi*b.hi
		}
	case "bvudiv":
		a, b := arg(0), arg(1)
		if b.lo > 0 {
			t.lo, t.hi = a.lo/b.hi, a.hi/b.lo
		}
	case "bvurem":
		a, b := arg(0), arg(1)
		if b.lo > 0 {
			t.hi = b.hi - 1
			if a.hi < t.hi {
				t.hi = a.hi
			}
		}
	case "ite":
		a, b := arg(1), arg(2)
		t.kz, t.ko = a.kz&b.kz, a.ko&b.ko
		t.lo, t.hi = a.lo, a.hi
		if b.lo < t.lo {
			t.lo = b.lo
		}
		if b.hi > t.hi {
			t.hi = b.hi
		}
	}
	// reduce: exchange information between the two domains
	if t.hi > mk {
		t.hi = mk
	}
	t.kz |= mk &^ mask(bitLen(t.hi))
	if t.ko > t.lo {
		t.lo = t.ko
	}
	if m := ^t.kz & mk; m < t.hi {
		t.hi = m
	}
	if t.lo > t.hi {
		// inconsistent (dead code on this path); fall back to no information
		t.kz, t.ko, t.lo, t.hi = 0, 0, 0, mk
	}
}

func cmpByRange(op string, a, b *Term) (bool, bool) {
	w := a.sort.W
	signed := op[2] == 's'
	alo, ahi, blo, bhi := a.lo, a.hi, b.lo, b.hi
	if signed {
		half := uint64(1) << uint(w-1)
		// only when both ranges stay on one side of the sign boundary
		an, ap := alo >= half, ahi < half
		bn, bp := blo >= half, bhi < half
		if !(an || ap) || !(bn || bp) {
			return false, false
		}
		if an != bn {
			// different signs: negative < non-negative
			lt := an
			switch op {
			case "bvslt", "bvsle":
				return lt, true
			default:
				return !lt, true
			}
		}
		// same sign: unsigned order coincides with signed order
	}
	switch op[3:] {
	case "lt":
		if ahi < blo {
			return true, true
		}
		if alo >= bhi {
			return false, true
		}
	case "le":
		if ahi <= blo {
			return true, true
		}
		if alo > bhi {
			return false, true
		}
	case "gt":
		if alo > bhi {
			return true, true
		}
		if ahi <= blo {
			return false, true
		}
	case "ge":
		if alo >= bhi {
			return true, true
		}
		if ahi < blo {
			return false, true
		}
	}
	return false, false
}

// ---- linear normalisation (sound: bit-vector +,-,* by constant form a commutative ring) ----

func (ts *TermStore) linOf(t *Term) *linForm {
	if t.IsConst() {
		return &linForm{c: t.val}
	}
	if t.lin != nil {
		return t.lin
	}
	return &linForm{atoms: []*Term{t}, coef: []uint64{1}}
}

// linAdd returns a + k*b.
func linAdd(a, b *linForm, k uint64, w int) *linForm {
	mk := mask(w)
	r := &linForm{c: (a.c + k*b.c) & mk}
	i, j := 0, 0
	for i < len(a.atoms) || j < len(b.atoms) {
		switch {
		case j >= len(b.atoms) || (i < len(a.atoms) && a.atoms[i].id < b.atoms[j].id):
			r.atoms = append(r.atoms, a.atoms[i])
			r.coef = append(r.coef, a.coef[i])
			i++
		case i >= len(a.atoms) || b.atoms[j].id < a.atoms[i].id:
			if c := (k * b.coef[j]) & mk; c != 0 {
				r.atoms = append(r.atoms, b.atoms[j])
				r.coef = append(r.coef, c)
			}
			j++
		default:
			if c := (a.coef[i] + k*b.coef[j]) & mk; c != 0 {
				r.atoms = append(r.atoms, a.atoms[i])
				r.coef = append(r.coef, c)
			}
			i++
			j++
		}
	}
	return r
}

func linScale(a *linForm, k uint64, w int) *linForm {
	mk := mask(w)
	r := &linForm{c: (a.c * k) & mk}
	for i := range a.atoms {
		if c := (a.coef[i] * k) & mk; c != 0 {
			r.atoms = append(r.atoms, a.atoms[i])
			r.coef = append(r.coef, c)
		}
	}
	return r
}

func (ts *TermStore) fromLin(l *linForm, w int) *Term {
	mk := mask(w)
	if len(l.atoms) == 0 {
		return ts.BVConst(l.c, w)
	}
	if len(l.atoms) == 1 && l.coef[0] == 1 && l.c == 0 {
		return l.atoms[0]
	}
	srt := BV(w)
	var acc *Term
	// positive (coefficient 1) and scaled atoms first, then subtractions
	for pass := 0; pass < 2; pass++ {
		for i, a := range l.atoms {
			neg := l.coef[i] == mk
			if (pass == 0) == neg {
				continue
			}
			switch {
			case neg && acc == nil:
				acc = ts.mk(&Term{op: "bvneg", sort: srt, args: []*Term{a}})
			case neg:
				acc = ts.mk(&Term{op: "bvsub", sort: srt, args: []*Term{acc, a}})
			default:
				x := a
				if l.coef[i] != 1 {
					x = ts.mk(&Term{op: "bvmul", sort: srt, args: []*Term{ts.BVConst(l.coef[i], w), a}})
				}
				if acc == nil {
					acc = x
				} else {
					acc = ts.mk(&Term{op: "bvadd", sort: srt, args: []*Term{acc, x}})
				}
			}
		}
	}
	if l.c != 0 {
		acc = ts.mk(&Term{op: "bvadd", sort: srt, args: []*Term{acc, ts.BVConst(l.c, w)}})
	}
	if !acc.IsConst() && acc.lin == nil {
		acc.lin = l
	}
	return acc
}

// ---- comparisons through linear forms ----

func twoPow(w int) *big.Int { return new(big.Int).Lsh(big.NewInt(1), uint(w)) }

func rangeHasMultiple(lo, hi *big.Int, w int) bool {
	// is there k with lo <= k*2^w <= hi ?
	m := twoPow(w)
	q := new(big.Int).Div(hi, m) // floor
	k := new(big.Int).Mul(q, m)
	return k.Cmp(lo) >= 0
}

// linMathRange returns the range of sum(sc_i*A_i)+sc over the integers, where sc is the
// signed reading of a coefficient and A_i ranges over the atom's unsigned interval.
func linMathRange(l *linForm, w int) (*big.Int, *big.Int) {
	lo := big.NewInt(sx(l.c, w))
	hi := big.NewInt(sx(l.c, w))
	for i, a := range l.atoms {
		c := big.NewInt(sx(l.coef[i], w))
		alo := new(big.Int).SetUint64(a.lo)
		ahi := new(big.Int).SetUint64(a.hi)
		x := new(big.Int).Mul(c, alo)
		y := new(big.Int).Mul(c, ahi)
		if x.Cmp(y) > 0 {
			x, y = y, x
		}
		lo.Add(lo, x)
		hi.Add(hi, y)
	}
	return lo, hi
}

// cmpLinear rewrites a ⋈ b into (a-b) ⋈ 0 when neither side can wrap, which cancels common
// terms (x+5 < x+7) and often decides the comparison outright. Returns nil when not applicable.
func (ts *TermStore) cmpLinear(op string, a, b *Term) *Term {
	if a.lin == nil && b.lin == nil {
		return nil
	}
	w := a.sort.W
	la, lb := ts.linOf(a), ts.linOf(b)
	alo, ahi := linMathRange(la, w)
	blo, bhi := linMathRange(lb, w)
	signed := op[2] == 's'
	var min, max *big.Int
	if signed {
		max = new(big.Int).Lsh(big.NewInt(1), uint(w-1))
		min = new(big.Int).Neg(max)
	} else {
		min = big.NewInt(0)
		max = twoPow(w)
	}
	in := func(lo, hi *big.Int) bool { return lo.Cmp(min) >= 0 && hi.Cmp(max) < 0 }
	if !in(alo, ahi) || !in(blo, bhi) {
		return nil
	}
	d := linAdd(la, lb, mask(w), w)
	dlo, dhi := linMathRange(d, w)
	// decide by range
	switch op[3:] {
	case "lt":
		if dhi.Sign() < 0 {
			return ts.True
		}
		if dlo.Sign() >= 0 {
			return ts.False
		}
	case "le":
		if dhi.Sign() <= 0 {
			return ts.True
		}
		if dlo.Sign() > 0 {
			return ts.False
		}
	case "gt":
		if dlo.Sign() > 0 {
			return ts.True
		}
		if dhi.Sign() <= 0 {
			return ts.False
		}
	case "ge":
		if dlo.Sign() >= 0 {
			return ts.True
		}
		if dhi.Sign() < 0 {
			return ts.False
		}
	}
	// the difference must be readable as a signed w-bit number
	smax := new(big.Int).Lsh(big.NewInt(1), uint(w-1))
	smin := new(big.Int).Neg(smax)
	if dlo.Cmp(smin) < 0 || dhi.Cmp(smax) >= 0 {
		return nil
	}
	dt := ts.fromLin(d, w)
	z := ts.BVConst(0, w)
	if dt.IsConst() {
		v := sx(dt.val, w)
		switch op[3:] {
		case "lt":
			return ts.BoolConst(v < 0)
		case "le":
			return ts.BoolConst(v <= 0)
		case "gt":
			return ts.BoolConst(v > 0)
		default:
			return ts.BoolConst(v >= 0)
		}
	}
	switch op[3:] {
	case "lt":
		return ts.mk(&Term{op: "bvslt", sort: BoolSort, args: []*Term{dt, z}})
	case "le":
		return ts.mk(&Term{op: "bvsle", sort: BoolSort, args: []*Term{dt, z}})
	case "gt":
		return ts.Not(ts.mk(&Term{op: "bvsle", sort: BoolSort, args: []*Term{dt, z}}))
	default:
		return ts.Not(ts.mk(&Term{op: "bvslt", sort: BoolSort, args: []*Term{dt, z}}))
	}
}

func (ts *TermStore) narrowArith(op string, a, b *Term) *Term {
	w := a.sort.W
	if w < 16 {
		return nil
	}
	half := uint64(1) << uint(w-1)
	if a.hi >= half || b.hi >= half {
		return nil
	}
	var k int
	switch op {
	case "bvmul":
		if a.hi != 0 && b.hi > (half-1)/a.hi {
			return nil
		}
		k = bitLen(a.hi * b.hi)
	case "bvudiv", "bvsdiv", "bvurem", "bvsrem":
		k = bitLen(a.hi)
		if bl := bitLen(b.hi); bl > k {
			k = bl
		}
	default:
		return nil
	}
	if k < 1 {
		k = 1
	}
	if k+8 > w {
		return nil
	}
	na, nb := ts.Extract(k-1, 0, a), ts.Extract(k-1, 0, b)
	srt := BV(k)
	var n *Term
	switch op {
	case "bvmul":
		n = ts.mk(&Term{op: "bvmul", sort: srt, args: []*Term{na, nb}})
		return ts.ZExt(n, w)
	case "bvudiv", "bvsdiv":
		n = ts.mk(&Term{op: "bvudiv", sort: srt, args: []*Term{na, nb}})
		// x / 0 is all ones in SMT-LIB (for non-negative x under both signed and unsigned division)
		return ts.Ite(ts.Eq(b, ts.BVConst(0, w)), ts.BVConst(mask(w), w), ts.ZExt(n, w))
	default:
		n = ts.mk(&Term{op: "bvurem", sort: srt, args: []*Term{na, nb}})
		return ts.Ite(ts.Eq(b, ts.BVConst(0, w)), a, ts.ZExt(n, w))
	}
}
