package sym

// The executor: an SSA interpreter with symbolic scalars and replay-based path forking.
// Structure follows golang.org/x/tools/go/ssa/interp (BSD license, The Go Authors).

import (
	"fmt"
	"go/token"
	"go/types"
	"runtime"
	"slices"
	"strings"

	"golang.org/x/tools/go/ssa"
)

type continuation int

const (
	kNext continuation = iota
	kReturn
	kJump
)

// Panics used for control flow inside the engine.
type targetPanic struct{ v value }    // the target program panicked
type unsupported struct{ msg string } // engine limitation: path is inconclusive
type pathEnd struct {                 // path terminated by the engine
	kind string // "assume", "violation", "unwind", "budget", "done"
	msg  string
}

func (u unsupported) Error() string { return "unsupported: " + u.msg }

type decision struct {
	kind  uint8 // 0 symbolic branch, 1 concrete choice, 2 assume
	taken int32
	n     int32
}

type inputVar struct {
	Name   string
	Kind   string // "bool","int","byte","choice","float32"
	term   *Term
	cval   int64 // for choice
	Bits   int
	Signed bool
}

type deferred struct {
	fn    value
	args  []value
	instr *ssa.Defer
	tail  *deferred
}

type frame struct {
	m                *Machine
	caller           *frame
	fn               *ssa.Function
	block, prevBlock *ssa.BasicBlock
	env              map[ssa.Value]value
	locals           []value
	defers           *deferred
	result           value
	panicking        bool
	panic            interface{}
	phitemps         []value
	symBranch        map[ssa.Instruction]int
	callpos          token.Pos
}

// Machine is one worker's interpreter state.
type Machine struct {
	P      *Program
	ts     *TermStore
	solver *Solver
	cfg    *Config

	globals  map[*ssa.Global]*value
	inited   map[*ssa.Package]bool
	extCache map[*ssa.Function]externalFn

	// per path
	prefix       []decision
	path         []decision
	solverPath   []decision
	inputs       []inputVar
	nameCount    map[string]int
	events       []string // Reach/Assert ids in order
	obs          []obsRec
	steps        int
	depth        int
	newItems     []workItem
	model        map[string]uint64
	evalCache    map[int]uint64
	facts        map[int]bool
	pendingModel map[string]uint64
	curIf        *ssa.If
	BranchStats  map[string][2]int
	modelActive  bool
	locksHeld    map[*value]int
	recorded     []string
	lastMono     *Term
	wallAt       map[int][2]value
	inInit       bool
	lastStack    string
	panicStack   string
	exp          *Explorer

	// accumulated
	st        Stats
	funcsHit  map[*ssa.Function]bool
	stubsHit  map[string]int
	notes     map[string]int
	unknownBr int
}

type obsRec struct {
	name string
	v    value
}

type Stats struct {
	Paths, Pruned, Decisions, Forks, Violations, Inconclusive int
	Asserts, AssertQueries                                    int
	UnwindExceeded                                            int
	Steps                                                     int64
}

func (fr *frame) get(key ssa.Value) value {
	switch key := key.(type) {
	case nil:
		return nil
	case *ssa.Function, *ssa.Builtin:
		return key
	case *ssa.Const:
		return constValue(key)
	case *ssa.Global:
		return fr.m.global(key)
	}
	if r, ok := fr.env[key]; ok {
		return r
	}
	panic(fmt.Sprintf("get: no value for %T: %v in %s", key, key.Name(), fr.fn))
}

func (m *Machine) global(g *ssa.Global) *value {
	if r, ok := m.globals[g]; ok {
		return r
	}
	if g.Pkg != nil && !m.inited[g.Pkg] {
		if !m.P.initAllowed(g.Pkg.Pkg.Path()) {
			if !m.P.globalAllowed(g) {
				panic(unsupported{"read of global " + g.String() + " of a package whose initialiser is not run"})
			}
		} else {
			m.ensureInit(g.Pkg)
			if r, ok := m.globals[g]; ok {
				return r
			}
		}
	}
	cell := zero(deref(g.Type()))
	m.globals[g] = &cell
	return &cell
}

func deref(t types.Type) types.Type {
	if p, ok := t.Underlying().(*types.Pointer); ok {
		return p.Elem()
	}
	panic(fmt.Sprintf("deref of non-pointer %v", t))
}

func (m *Machine) ensureInit(pkg *ssa.Package) {
	if m.inited[pkg] {
		return
	}
	m.inited[pkg] = true
	if init := pkg.Func("init"); init != nil {
		m.call(nil, token.NoPos, init, nil)
	}
}

func (m *Machine) note(s string) { m.notes[s]++ }

// rtErrorType is runtime.errorString of the loaded program (set by Load).
var rtErrorType types.Type

func runtimeError(msg string) value { return iface{t: rtErrorType, v: msg} }

// ---- decisions ----

func sameDecision(a, b decision) bool { return a.kind == b.kind && a.taken == b.taken && a.n == b.n }

func (m *Machine) pushDecision(d decision, lit *Term) {
	pos := len(m.path)
	m.path = append(m.path, d)
	if lit != nil {
		m.learn(lit, true)
	}
	if pos < len(m.solverPath) {
		if !sameDecision(m.solverPath[pos], d) {
			panic(fmt.Sprintf("engine: solver stack out of sync at decision %d", pos))
		}
		return
	}
	m.solver.Push()
	if lit != nil {
		m.solver.Assert(lit)
	}
	m.solverPath = append(m.solverPath, d)
}

// learn records literals asserted on this path so that a later branch on the same
// condition needs neither a decision nor a solver call.
func (m *Machine) learn(lit *Term, v bool) {
	switch lit.op {
	case "not":
		m.learn(lit.args[0], !v)
		return
	case "and":
		if v {
			m.learn(lit.args[0], true)
			m.learn(lit.args[1], true)
		}
	case "or":
		if !v {
			m.learn(lit.args[0], false)
			m.learn(lit.args[1], false)
		}
	}
	m.facts[lit.id] = v
}

func (m *Machine) known(c *Term) (bool, bool) {
	if c.op == "not" {
		v, ok := m.known(c.args[0])
		return !v, ok
	}
	v, ok := m.facts[c.id]
	return v, ok
}

// decide forks on a symbolic condition.
func (m *Machine) decide(c *Term) bool {
	if c.IsConst() {
		return c.val == 1
	}
	if v, ok := m.known(c); ok {
		return v
	}
	pos := len(m.path)
	if pos < len(m.prefix) {
		d := m.prefix[pos]
		if d.kind != 0 {
			panic(fmt.Sprintf("engine: nondeterministic re-execution at decision %d (want kind %d, got branch)", pos, d.kind))
		}
		lit := c
		if d.taken == 0 {
			lit = m.ts.Not(c)
		}
		m.pushDecision(d, lit)
		return d.taken == 1
	}
	m.st.Decisions++
	m.activateModel()
	if m.model != nil {
		// the current model satisfies the path condition: the side it picks is feasible
		taken := m.evalTerm(c) == 1
		lit, nlit := c, m.ts.Not(c)
		if !taken {
			lit, nlit = nlit, lit
		}
		if m.cfg.Paranoid {
			if r := m.solver.CheckWith(lit); r != Sat {
				panic(fmt.Sprintf("engine: model evaluation says %s is feasible, solver says %v", lit.ref(), r))
			}
		}
		r, alt := m.checkAlt(nlit)
		if m.BranchStats != nil {
			k := "(non-branch)"
			if m.curIf != nil {
				k = m.P.Prog.Fset.Position(m.curIf.Cond.Pos()).String() + " " + m.curIf.Cond.String()
			}
			e := m.BranchStats[k]
			e[0]++
			if r != Unsat {
				e[1]++
			}
			m.BranchStats[k] = e
		}
		if r != Unsat {
			if r == Unknown {
				m.unknownBr++
			}
			tk := int32(1)
			if taken {
				tk = 0
			}
			m.newItems = append(m.newItems, workItem{prefix: append(append([]decision(nil), m.path...), decision{kind: 0, taken: tk}), model: alt})
			m.st.Forks++
		}
		tk := int32(0)
		if taken {
			tk = 1
		}
		m.pushDecision(decision{kind: 0, taken: tk}, lit)
		return taken
	}
	rT := m.solver.CheckWith(c)
	if rT == Unsat {
		m.pushDecision(decision{kind: 0, taken: 0}, m.ts.Not(c))
		return false
	}
	if rT == Unknown {
		m.unknownBr++
	}
	rF := m.solver.CheckWith(m.ts.Not(c))
	if rF != Unsat {
		if rF == Unknown {
			m.unknownBr++
		}
		alt := append(append([]decision(nil), m.path...), decision{kind: 0, taken: 0})
		m.newItems = append(m.newItems, workItem{prefix: alt})
		m.st.Forks++
	}
	m.pushDecision(decision{kind: 0, taken: 1}, c)
	return true
}

// activateModel installs the model that came with the work item once the prefix is replayed.
func (m *Machine) activateModel() {
	if m.modelActive {
		return
	}
	m.modelActive = true
	if m.pendingModel != nil {
		m.setModel(m.pendingModel)
		m.pendingModel = nil
		return
	}
	if m.solver.Check() == Sat {
		m.setModel(m.fetchModel())
	} else {
		m.setModel(nil)
	}
}

// checkAlt checks stack ∧ t and returns a model of it when sat.
func (m *Machine) checkAlt(t *Term) (Result, map[string]uint64) {
	s := m.solver
	s.Push()
	s.Assert(t)
	r := s.Check()
	var md map[string]uint64
	if r == Sat {
		md = m.fetchModel()
	}
	s.Pop(1)
	return r, md
}

// decideV forks on a bool-or-symbolic value.
func (m *Machine) decideV(v value) bool {
	switch x := v.(type) {
	case bool:
		return x
	case *Sym:
		return m.decide(x.t)
	}
	panic(fmt.Sprintf("decideV of %T", v))
}

// choose forks n ways without involving the solver.
func (m *Machine) choose(n int) int {
	if n <= 1 {
		return 0
	}
	pos := len(m.path)
	if pos < len(m.prefix) {
		d := m.prefix[pos]
		if d.kind != 1 || int(d.n) != n {
			panic(fmt.Sprintf("engine: nondeterministic re-execution at decision %d (want kind %d n %d, got choice n %d)", pos, d.kind, d.n, n))
		}
		m.pushDecision(d, nil)
		return int(d.taken)
	}
	m.activateModel()
	for i := n - 1; i >= 1; i-- {
		alt := append(append([]decision(nil), m.path...), decision{kind: 1, taken: int32(i), n: int32(n)})
		var md map[string]uint64
		if m.model != nil {
			md = make(map[string]uint64, len(m.model))
			for k, v := range m.model {
				md[k] = v
			}
		}
		m.newItems = append(m.newItems, workItem{prefix: alt, model: md, modelOK: md != nil})
		m.st.Forks++
	}
	m.pushDecision(decision{kind: 1, taken: 0, n: int32(n)}, nil)
	return 0
}

// assume constrains the rest of the path; an infeasible assumption ends it.
func (m *Machine) assume(c *Term) {
	if c.IsConst() {
		if c.val == 0 {
			panic(pathEnd{kind: "assume"})
		}
		return
	}
	pos := len(m.path)
	if pos < len(m.prefix) {
		d := m.prefix[pos]
		if d.kind != 2 {
			panic(fmt.Sprintf("engine: nondeterministic re-execution at decision %d (want kind %d, got assume)", pos, d.kind))
		}
		m.pushDecision(d, c)
		return
	}
	m.activateModel()
	m.pushDecision(decision{kind: 2}, c)
	if m.model != nil && m.evalTerm(c) == 1 {
		return
	}
	switch m.solver.Check() {
	case Unsat:
		panic(pathEnd{kind: "assume"})
	case Sat:
		m.setModel(m.fetchModel())
	default:
		m.unknownBr++
		m.setModel(nil)
	}
}

// concretize forks over the feasible values of a symbolic integer within [lo,hi].
func (m *Machine) concretize(v value, lo, hi int64, what string) int64 {
	s, ok := v.(*Sym)
	if !ok {
		return asInt64(v)
	}
	if hi-lo > 64 {
		panic(unsupported{"concretize range too large for " + what})
	}
	w := s.t.sort.W
	for i := lo; i <= hi; i++ {
		if m.decide(m.ts.Eq(s.t, m.ts.BVConst(uint64(i), w))) {
			return i
		}
	}
	// value outside [lo,hi]
	return hi + 1
}

// ---- instruction dispatch ----

func (m *Machine) nilDeref() {
	panic(targetPanic{v: runtimeError("invalid memory address or nil pointer dereference")})
}

func (m *Machine) visitInstr(fr *frame, instr ssa.Instruction) continuation {
	switch instr := instr.(type) {
	case *ssa.DebugRef:

	case *ssa.UnOp:
		fr.env[instr] = m.unop(fr, instr, fr.get(instr.X))

	case *ssa.BinOp:
		fr.env[instr] = m.binop(instr.Op, instr.X.Type(), instr.Y.Type(), fr.get(instr.X), fr.get(instr.Y))

	case *ssa.Call:
		fn, args := m.prepareCall(fr, &instr.Call)
		fr.env[instr] = m.call(fr, instr.Pos(), fn, args)

	case *ssa.ChangeInterface:
		fr.env[instr] = fr.get(instr.X)

	case *ssa.ChangeType:
		fr.env[instr] = fr.get(instr.X)

	case *ssa.Convert:
		fr.env[instr] = m.conv(instr.Type(), instr.X.Type(), fr.get(instr.X))

	case *ssa.SliceToArrayPointer:
		x := fr.get(instr.X).([]value)
		arr := deref(instr.Type()).Underlying().(*types.Array)
		if arr.Len() > int64(len(x)) {
			panic(targetPanic{v: runtimeError("cannot convert slice to array pointer: length mismatch")})
		}
		if x == nil {
			fr.env[instr] = (*value)(nil)
		} else {
			v := value(array(x[:arr.Len()]))
			fr.env[instr] = &v
		}

	case *ssa.MakeInterface:
		fr.env[instr] = iface{t: instr.X.Type(), v: fr.get(instr.X)}

	case *ssa.Extract:
		fr.env[instr] = fr.get(instr.Tuple).(tuple)[instr.Index]

	case *ssa.Slice:
		fr.env[instr] = m.slice(fr.get(instr.X), fr.get(instr.Low), fr.get(instr.High), fr.get(instr.Max))

	case *ssa.Return:
		switch len(instr.Results) {
		case 0:
		case 1:
			fr.result = fr.get(instr.Results[0])
		default:
			var res []value
			for _, r := range instr.Results {
				res = append(res, fr.get(r))
			}
			fr.result = tuple(res)
		}
		fr.block = nil
		return kReturn

	case *ssa.RunDefers:
		fr.runDefers()

	case *ssa.Panic:
		panic(targetPanic{fr.get(instr.X)})

	case *ssa.Send:
		panic(unsupported{"channel send"})

	case *ssa.Store:
		if _, ok := fr.get(instr.Addr).(*symPtr); ok {
			panic(unsupported{"store through a symbolic index"})
		}
		addr := fr.get(instr.Addr).(*value)
		if addr == nil {
			m.nilDeref()
		}
		store(addr, fr.get(instr.Val))

	case *ssa.If:
		succ := 1
		c := fr.get(instr.Cond)
		switch cv := c.(type) {
		case bool:
			if cv {
				succ = 0
			}
		case *Sym:
			if len(m.path) >= len(m.prefix) {
				if fr.symBranch == nil {
					fr.symBranch = map[ssa.Instruction]int{}
				}
				fr.symBranch[instr]++
				if fr.symBranch[instr] > m.cfg.Unwind {
					m.st.UnwindExceeded++
					panic(pathEnd{kind: "unwind", msg: fmt.Sprintf("loop bound %d exceeded at %s", m.cfg.Unwind, m.P.Prog.Fset.Position(instr.Pos()))})
				}
			}
			m.curIf = instr
			if m.decide(cv.t) {
				succ = 0
			}
			m.curIf = nil
		default:
			panic(fmt.Sprintf("If on %T", c))
		}
		fr.prevBlock, fr.block = fr.block, fr.block.Succs[succ]
		return kJump

	case *ssa.Jump:
		fr.prevBlock, fr.block = fr.block, fr.block.Succs[0]
		return kJump

	case *ssa.Defer:
		fn, args := m.prepareCall(fr, &instr.Call)
		defers := &fr.defers
		if into := fr.get(instr.DeferStack); into != nil {
			defers = into.(**deferred)
		}
		*defers = &deferred{fn: fn, args: args, instr: instr, tail: *defers}

	case *ssa.Go:
		panic(unsupported{"go statement"})

	case *ssa.MakeChan:
		// channels are opaque; only creation is supported (e.g. struct fields never used)
		fr.env[instr] = &native{v: "chan"}

	case *ssa.Alloc:
		var addr *value
		if instr.Heap {
			addr = new(value)
			fr.env[instr] = addr
		} else {
			addr = fr.env[instr].(*value)
		}
		*addr = zero(deref(instr.Type()))

	case *ssa.MakeSlice:
		c := m.concretize(fr.get(instr.Cap), 0, 16, "make cap")
		l := m.concretize(fr.get(instr.Len), 0, 16, "make len")
		if l < 0 || c < l || c > 1<<24 {
			panic(targetPanic{v: runtimeError("makeslice: len out of range")})
		}
		sl := make([]value, c)
		tElt := instr.Type().Underlying().(*types.Slice).Elem()
		for i := range sl {
			sl[i] = zero(tElt)
		}
		fr.env[instr] = sl[:l]

	case *ssa.MakeMap:
		fr.env[instr] = newMap(instr.Type().Underlying().(*types.Map).Key())

	case *ssa.Range:
		fr.env[instr] = m.rangeIter(fr.get(instr.X), instr.X.Type())

	case *ssa.Next:
		fr.env[instr] = fr.get(instr.Iter).(iter).next(m)

	case *ssa.FieldAddr:
		p := fr.get(instr.X).(*value)
		if p == nil {
			m.nilDeref()
		}
		fr.env[instr] = &(*p).(structure)[instr.Field]

	case *ssa.Field:
		fr.env[instr] = fr.get(instr.X).(structure)[instr.Field]

	case *ssa.IndexAddr:
		x := fr.get(instr.X)
		idx := m.idx64(fr.get(instr.Index), instr.Index.Type())
		switch x := x.(type) {
		case []value:
			if sp := m.symElemPtr(x, idx); sp != nil {
				fr.env[instr] = sp
				break
			}
			i := m.indexCheck(idx, len(x))
			fr.env[instr] = &x[i]
		case *value: // *array
			if x == nil {
				m.nilDeref()
			}
			a := (*x).(array)
			if sp := m.symElemPtr(a, idx); sp != nil {
				fr.env[instr] = sp
				break
			}
			i := m.indexCheck(idx, len(a))
			fr.env[instr] = &a[i]
		default:
			panic(fmt.Sprintf("unexpected x type in IndexAddr: %T", x))
		}

	case *ssa.Index:
		x := fr.get(instr.X)
		idx := m.idx64(fr.get(instr.Index), instr.Index.Type())
		switch x := x.(type) {
		case array:
			fr.env[instr] = x[m.indexCheck(idx, len(x))]
		case string:
			if s, ok := idx.(*Sym); ok {
				fr.env[instr] = m.symIndexBytes(strBytes(x), s)
			} else {
				fr.env[instr] = x[m.indexCheck(idx, len(x))]
			}
		case sstr:
			if s, ok := idx.(*Sym); ok {
				fr.env[instr] = m.symIndexBytes(x, s)
			} else {
				fr.env[instr] = x[m.indexCheck(idx, len(x))]
			}
		default:
			panic(fmt.Sprintf("unexpected x type in Index: %T", x))
		}

	case *ssa.Lookup:
		fr.env[instr] = m.lookup(instr, fr.get(instr.X), fr.get(instr.Index))

	case *ssa.MapUpdate:
		mp := fr.get(instr.Map).(*mapv)
		if mp == nil {
			panic(targetPanic{v: runtimeError("assignment to entry in nil map")})
		}
		m.mapInsert(mp, fr.get(instr.Key), fr.get(instr.Value))

	case *ssa.TypeAssert:
		fr.env[instr] = m.typeAssert(instr, fr.get(instr.X).(iface))

	case *ssa.MakeClosure:
		var bindings []value
		for _, binding := range instr.Bindings {
			bindings = append(bindings, fr.get(binding))
		}
		fr.env[instr] = &closure{instr.Fn.(*ssa.Function), bindings}

	case *ssa.Phi:
		panic("unreachable: phi")

	case *ssa.Select:
		panic(unsupported{"select"})

	default:
		panic(fmt.Sprintf("unexpected instruction: %T", instr))
	}
	return kNext
}

// idx64 widens a symbolic index to 64 bits according to its static type.
func (m *Machine) idx64(idx value, t types.Type) value {
	s, ok := idx.(*Sym)
	if !ok || s.t.sort.W == 64 {
		return idx
	}
	if isUnsignedT(t) {
		return &Sym{m.ts.ZExt(s.t, 64)}
	}
	return &Sym{m.ts.SExt(s.t, 64)}
}

// indexCheck returns a concrete in-range index or raises the Go run-time panic.
func (m *Machine) indexCheck(idx value, n int) int {
	if s, ok := idx.(*Sym); ok {
		w := s.t.sort.W
		// out of range?
		if m.decide(m.ts.BVCmp("bvuge", s.t, m.ts.BVConst(uint64(n), w))) {
			panic(targetPanic{v: runtimeError(fmt.Sprintf("index out of range [sym] with length %d", n))})
		}
		return int(m.concretize(idx, 0, int64(n-1), "index"))
	}
	i := asInt64(idx)
	if i < 0 || i >= int64(n) {
		panic(targetPanic{v: runtimeError(fmt.Sprintf("index out of range [%d] with length %d", i, n))})
	}
	return int(i)
}

// symPtr is the address of elems[idx] for a symbolic in-range idx; only loads are supported.
type symPtr struct {
	elems []value
	idx   *Term
}

func isScalarVal(v value) bool {
	switch v.(type) {
	case bool, int, int8, int16, int32, int64, uint, uint8, uint16, uint32, uint64, uintptr, *Sym:
		return true
	}
	return false
}

// symElemPtr handles &elems[idx] for symbolic idx over a table of scalars (bounds check forked).
func (m *Machine) symElemPtr(elems []value, idx value) *symPtr {
	s, ok := idx.(*Sym)
	if !ok || len(elems) <= 8 {
		return nil
	}
	for _, e := range elems {
		if !isScalarVal(e) {
			return nil
		}
	}
	w := s.t.sort.W
	if m.decide(m.ts.BVCmp("bvuge", s.t, m.ts.BVConst(uint64(len(elems)), w))) {
		panic(targetPanic{v: runtimeError(fmt.Sprintf("index out of range [sym] with length %d", len(elems)))})
	}
	return &symPtr{elems: elems, idx: s.t}
}

func (m *Machine) loadSymPtr(sp *symPtr, t types.Type) value {
	// default = most frequent concrete element
	cnt := map[value]int{}
	var def value
	best := 0
	for _, e := range sp.elems {
		if !isSym(e) {
			cnt[e]++
			if cnt[e] > best {
				best, def = cnt[e], e
			}
		}
	}
	if def == nil {
		def = sp.elems[0]
	}
	acc := m.toTerm(def)
	w := sp.idx.sort.W
	for i, e := range sp.elems {
		if !isSym(e) && e == def {
			continue
		}
		acc = m.ts.Ite(m.ts.Eq(sp.idx, m.ts.BVConst(uint64(i), w)), m.toTerm(e), acc)
	}
	return m.fromTerm(t, acc)
}

// symIndexBytes reads bs[i] for a symbolic i as an ite chain (with a bounds check fork).
func (m *Machine) symIndexBytes(bs []value, i *Sym) value {
	w := i.t.sort.W
	n := len(bs)
	if m.decide(m.ts.BVCmp("bvuge", i.t, m.ts.BVConst(uint64(n), w))) {
		panic(targetPanic{v: runtimeError(fmt.Sprintf("index out of range [sym] with length %d", n))})
	}
	if n == 0 {
		panic("unreachable")
	}
	acc := m.toTerm(bs[n-1])
	for k := n - 2; k >= 0; k-- {
		acc = m.ts.Ite(m.ts.Eq(i.t, m.ts.BVConst(uint64(k), w)), m.toTerm(bs[k]), acc)
	}
	return m.fromTerm(types.Typ[types.Uint8], acc)
}

func (m *Machine) unop(fr *frame, instr *ssa.UnOp, x value) value {
	switch instr.Op {
	case token.ARROW:
		panic(unsupported{"channel receive"})
	case token.MUL:
		if sp, ok := x.(*symPtr); ok {
			return m.loadSymPtr(sp, instr.Type())
		}
		p := x.(*value)
		if p == nil {
			m.nilDeref()
		}
		return copyVal(*p)
	}
	if s, ok := x.(*Sym); ok {
		return m.unopSym(instr.Op, instr.Type(), s)
	}
	switch instr.Op {
	case token.NOT:
		return !x.(bool)
	case token.SUB:
		return cbinop(token.SUB, instr.Type(), zeroLike(x), x)
	case token.XOR:
		return cbinop(token.XOR, instr.Type(), allOnesLike(x), x)
	}
	panic(fmt.Sprintf("invalid unary op %s %T", instr.Op, x))
}

func zeroLike(x value) value {
	switch x.(type) {
	case int:
		return int(0)
	case int8:
		return int8(0)
	case int16:
		return int16(0)
	case int32:
		return int32(0)
	case int64:
		return int64(0)
	case uint:
		return uint(0)
	case uint8:
		return uint8(0)
	case uint16:
		return uint16(0)
	case uint32:
		return uint32(0)
	case uint64:
		return uint64(0)
	case uintptr:
		return uintptr(0)
	case float32:
		return float32(0)
	case float64:
		return float64(0)
	case complex64:
		return complex64(0)
	case complex128:
		return complex128(0)
	}
	panic(fmt.Sprintf("zeroLike %T", x))
}

func allOnesLike(x value) value {
	switch x.(type) {
	case int:
		return int(-1)
	case int8:
		return int8(-1)
	case int16:
		return int16(-1)
	case int32:
		return int32(-1)
	case int64:
		return int64(-1)
	case uint:
		return ^uint(0)
	case uint8:
		return ^uint8(0)
	case uint16:
		return ^uint16(0)
	case uint32:
		return ^uint32(0)
	case uint64:
		return ^uint64(0)
	case uintptr:
		return ^uintptr(0)
	}
	panic(fmt.Sprintf("allOnesLike %T", x))
}

func (m *Machine) slice(x, lo, hi, max value) value {
	var Len, Cap int
	switch x := x.(type) {
	case string:
		Len = len(x)
		Cap = Len
	case sstr:
		Len = len(x)
		Cap = Len
	case []value:
		Len = len(x)
		Cap = cap(x)
	case *value:
		if x == nil {
			m.nilDeref()
		}
		a := (*x).(array)
		Len = len(a)
		Cap = cap(a)
	}
	l := int64(0)
	if lo != nil {
		l = m.concretize(lo, 0, int64(Cap), "slice low")
	}
	h := int64(Len)
	if hi != nil {
		h = m.concretize(hi, 0, int64(Cap), "slice high")
	}
	mx := int64(Cap)
	if max != nil {
		mx = m.concretize(max, 0, int64(Cap), "slice max")
	}
	if l < 0 || h < l || h > int64(Cap) || mx < h || mx > int64(Cap) {
		panic(targetPanic{v: runtimeError(fmt.Sprintf("slice bounds out of range [%d:%d:%d] with capacity %d", l, h, mx, Cap))})
	}
	switch x := x.(type) {
	case string:
		if h > int64(Len) {
			panic(targetPanic{v: runtimeError(fmt.Sprintf("slice bounds out of range [:%d] with length %d", h, Len))})
		}
		return x[l:h]
	case sstr:
		if h > int64(Len) {
			panic(targetPanic{v: runtimeError(fmt.Sprintf("slice bounds out of range [:%d] with length %d", h, Len))})
		}
		return strSlice(x, int(l), int(h))
	case []value:
		if x == nil {
			return []value(nil)
		}
		return x[l:h:mx]
	case *value:
		a := (*x).(array)
		return []value(a)[l:h:mx]
	}
	panic(fmt.Sprintf("slice: unexpected X type: %T", x))
}

// ---- maps ----

func (m *Machine) mapFind(mp *mapv, key value, forInsert bool) *mentry {
	if mp == nil {
		return nil
	}
	kr, conc := keyRepr(key)
	if conc {
		if e, ok := mp.idx[kr]; ok {
			return e
		}
		if mp.nsym == 0 {
			return nil
		}
	}
	// symbolic comparison against candidates, in insertion order
	for _, e := range mp.entries {
		if e.deleted {
			continue
		}
		if conc && !e.symKey {
			continue
		}
		eq := m.eqv(mp.keyT, e.key, key)
		if m.decideV(eq) {
			return e
		}
	}
	return nil
}

func (m *Machine) mapInsert(mp *mapv, key, val value) {
	if e := m.mapFind(mp, key, true); e != nil {
		e.val = val
		return
	}
	kr, conc := keyRepr(key)
	e := &mentry{key: key, val: val, symKey: !conc}
	mp.entries = append(mp.entries, e)
	if conc {
		mp.idx[kr] = e
	} else {
		mp.nsym++
	}
	mp.n++
}

func (m *Machine) mapDelete(mp *mapv, key value) {
	if mp == nil {
		return
	}
	e := m.mapFind(mp, key, false)
	if e == nil {
		return
	}
	e.deleted = true
	mp.n--
	if e.symKey {
		mp.nsym--
	} else {
		kr, _ := keyRepr(e.key)
		delete(mp.idx, kr)
	}
	// compact occasionally
	if len(mp.entries) > 2*mp.n+8 {
		var live []*mentry
		for _, x := range mp.entries {
			if !x.deleted {
				live = append(live, x)
			}
		}
		mp.entries = live
	}
}

func (m *Machine) lookup(instr *ssa.Lookup, x, idx value) value {
	mp, ok := x.(*mapv)
	if !ok {
		panic(fmt.Sprintf("unexpected x type in Lookup: %T", x))
	}
	var v value
	found := false
	if e := m.mapFind(mp, idx, false); e != nil {
		v, found = copyVal(e.val), true
	} else {
		v = zero(instr.X.Type().Underlying().(*types.Map).Elem())
	}
	if instr.CommaOk {
		return tuple{v, found}
	}
	return v
}

type iter interface {
	next(m *Machine) tuple
}

type mapIter struct {
	entries []*mentry
	i       int
}

func (it *mapIter) next(m *Machine) tuple {
	for it.i < len(it.entries) {
		e := it.entries[it.i]
		it.i++
		if e.deleted {
			continue
		}
		return tuple{true, e.key, copyVal(e.val)}
	}
	return tuple{false, nil, nil}
}

type stringIter struct {
	s value
	i int
}

func (it *stringIter) next(m *Machine) tuple {
	n := strLen(it.s)
	if it.i >= n {
		return tuple{false, nil, nil}
	}
	b := strByte(it.s, it.i)
	if cb, ok := b.(byte); ok && cb >= 0x80 {
		// decode a full UTF-8 sequence: all bytes must be concrete
		j := it.i
		var buf []byte
		for j < n && len(buf) < 4 {
			x, ok := strByte(it.s, j).(byte)
			if !ok {
				break
			}
			buf = append(buf, x)
			j++
		}
		r, sz := decodeRune(buf)
		idx := it.i
		it.i += sz
		return tuple{true, idx, r}
	}
	idx := it.i
	it.i++
	return tuple{true, idx, m.byteToRune(b)}
}

func decodeRune(b []byte) (rune, int) {
	for i, r := range string(b) {
		_ = i
		n := len(string(r))
		if r == 0xFFFD {
			n = 1
		}
		return r, n
	}
	return 0xFFFD, 1
}

func (m *Machine) rangeIter(x value, t types.Type) iter {
	switch x := x.(type) {
	case *mapv:
		if x == nil {
			return &mapIter{}
		}
		live := make([]*mentry, 0, x.n)
		for _, e := range x.entries {
			if !e.deleted {
				live = append(live, e)
			}
		}
		if m.cfg.PermuteMaps > 0 && len(live) > 1 && len(live) <= m.cfg.PermuteMaps {
			// solver-independent fork over all iteration orders
			perm := make([]*mentry, 0, len(live))
			rest := append([]*mentry(nil), live...)
			for len(rest) > 0 {
				k := m.choose(len(rest))
				perm = append(perm, rest[k])
				rest = append(rest[:k:k], rest[k+1:]...)
			}
			live = perm
			m.note("map iteration order chosen by the engine")
		}
		return &mapIter{entries: live}
	case string, sstr:
		return &stringIter{s: x}
	}
	panic(fmt.Sprintf("cannot range over %T", x))
}

// ---- type assertions ----

func (m *Machine) typeAssert(instr *ssa.TypeAssert, itf iface) value {
	var v value
	err := ""
	if itf.t == nil {
		err = fmt.Sprintf("interface conversion: interface is nil, not %s", instr.AssertedType)
	} else if idst, ok := instr.AssertedType.Underlying().(*types.Interface); ok {
		v = itf
		if meth, _ := types.MissingMethod(itf.t, idst, true); meth != nil {
			err = fmt.Sprintf("interface conversion: %v is not %v: missing method %s", itf.t, idst, meth.Name())
		}
	} else if types.Identical(itf.t, instr.AssertedType) {
		v = itf.v
	} else {
		err = fmt.Sprintf("interface conversion: interface is %s, not %s", itf.t, instr.AssertedType)
	}
	if err != "" {
		if !instr.CommaOk {
			panic(targetPanic{v: runtimeError(err)})
		}
		return tuple{zero(instr.AssertedType), false}
	}
	if instr.CommaOk {
		return tuple{v, true}
	}
	return v
}

// ---- calls ----

func (m *Machine) lookupMethod(typ types.Type, meth *types.Func) *ssa.Function {
	return m.P.Prog.LookupMethod(typ, meth.Pkg(), meth.Name())
}

func (m *Machine) prepareCall(fr *frame, call *ssa.CallCommon) (fn value, args []value) {
	v := fr.get(call.Value)
	if call.Method == nil {
		fn = v
	} else {
		recv := v.(iface)
		if recv.t == nil {
			panic(targetPanic{v: runtimeError("invalid memory address or nil pointer dereference (method call on nil interface)")})
		}
		if rt, ok := recv.v.(rtype); ok {
			fn = &builtinMethod{name: "rtype." + call.Method.Name(), recv: rt}
			for _, arg := range call.Args {
				args = append(args, fr.get(arg))
			}
			return fn, args
		}
		f := m.lookupMethod(recv.t, call.Method)
		if f == nil {
			panic(fmt.Sprintf("method set for dynamic type %v does not contain %s", recv.t, call.Method))
		}
		fn = f
		args = append(args, recv.v)
	}
	for _, arg := range call.Args {
		args = append(args, fr.get(arg))
	}
	return
}

type builtinMethod struct {
	name string
	recv value
}

func (m *Machine) call(caller *frame, callpos token.Pos, fn value, args []value) value {
	switch fn := fn.(type) {
	case *ssa.Function:
		if fn == nil {
			panic(targetPanic{v: runtimeError("call of nil function")})
		}
		return m.callSSA(caller, callpos, fn, args, nil)
	case *closure:
		return m.callSSA(caller, callpos, fn.Fn, args, fn.Env)
	case *ssa.Builtin:
		return m.callBuiltin(caller, callpos, fn, args)
	case *builtinMethod:
		return m.callBuiltinMethod(fn, args)
	}
	panic(fmt.Sprintf("cannot call %T", fn))
}

func (m *Machine) callBuiltinMethod(bm *builtinMethod, args []value) value {
	if strings.HasPrefix(bm.name, "rtype.") {
		return m.rtypeMethod(bm.name[6:], bm.recv.(rtype), args)
	}
	panic(unsupported{"builtin method " + bm.name})
}

func (m *Machine) external(fn *ssa.Function) externalFn {
	if e, ok := m.extCache[fn]; ok {
		return e
	}
	name := fn.String()
	e := externals[name]
	if repl, ok := m.cfg.Stubs[name]; ok {
		// harness-provided replacement of a function outside the engine's reach
		i := strings.LastIndex(repl, ".")
		rf := m.P.FuncByName(repl[:i], repl[i+1:])
		if rf == nil {
			panic(fmt.Sprintf("stub %s: replacement %s not found", name, repl))
		}
		e = func(m *Machine, fr *frame, args []value) value {
			return m.call(fr, token.NoPos, rf, args)
		}
	}
	if e == nil && fn.Origin() != nil {
		e = externals[fn.Origin().String()]
	}
	if e == nil && fn.Pkg == nil && fn.Origin() == nil {
		// wrappers/thunks: resolve by the wrapped object's name
		if o := fn.Object(); o != nil {
			_ = o
		}
	}
	m.extCache[fn] = e
	return e
}

func (m *Machine) callSSA(caller *frame, callpos token.Pos, fn *ssa.Function, args []value, env []value) value {
	if ext := m.external(fn); ext != nil {
		m.stubsHit[fn.String()]++
		fr := &frame{m: m, caller: caller, fn: fn, callpos: callpos}
		return ext(m, fr, args)
	}
	return m.callSource(caller, callpos, fn, args, env)
}

// callSource interprets the function's own SSA body (also used by externals that only
// summarise the concrete case and hand symbolic arguments to the real code).
func (m *Machine) callSource(caller *frame, callpos token.Pos, fn *ssa.Function, args []value, env []value) value {
	if fn.Blocks == nil {
		// package initialisers of packages on the deny list, and bodiless functions
		panic(unsupported{"no code for function: " + fn.String()})
	}
	if fn.Name() == "init" && fn.Pkg != nil && fn.Parent() == nil && fn.Signature.Recv() == nil && fn == fn.Pkg.Func("init") {
		if !m.P.initAllowed(fn.Pkg.Pkg.Path()) {
			return nil
		}
		m.inited[fn.Pkg] = true
	}
	if fn.TypeParams().Len() > 0 && len(fn.TypeArgs()) == 0 {
		panic(unsupported{"uninstantiated generic function " + fn.String()})
	}
	m.depth++
	if m.depth > 400 {
		panic(unsupported{"call depth exceeded in " + fn.String()})
	}
	defer func() { m.depth-- }()
	if !m.funcsHit[fn] {
		m.funcsHit[fn] = true
	}
	fr := &frame{m: m, caller: caller, fn: fn, callpos: callpos}
	fr.env = make(map[ssa.Value]value, 16)
	fr.block = fn.Blocks[0]
	fr.locals = make([]value, len(fn.Locals))
	for i, l := range fn.Locals {
		fr.locals[i] = zero(deref(l.Type()))
		fr.env[l] = &fr.locals[i]
	}
	for i, p := range fn.Params {
		fr.env[p] = args[i]
	}
	for i, fv := range fn.FreeVars {
		fr.env[fv] = env[i]
	}
	for fr.block != nil {
		m.runFrame(fr)
	}
	return fr.result
}

func (m *Machine) runFrame(fr *frame) {
	defer func() {
		if fr.block == nil {
			return // normal return
		}
		p := recover()
		if _, ok := p.(targetPanic); !ok {
			// engine-level abort (unsupported, pathEnd, internal error): do not run target defers
			if m.lastStack == "" {
				m.lastStack = m.targetStack(fr)
			}
			panic(p)
		}
		if m.panicStack == "" {
			m.panicStack = m.targetStack(fr)
		}
		fr.panicking = true
		fr.panic = p
		fr.runDefers()
		fr.block = fr.fn.Recover
	}()
	for {
		nonPhis := executePhis(fr)
		for _, instr := range nonPhis {
			m.steps++
			if m.steps > m.cfg.MaxSteps {
				panic(pathEnd{kind: "budget", msg: "step budget exceeded"})
			}
			if m.visitInstr(fr, instr) == kReturn {
				return
			}
		}
	}
}

func executePhis(fr *frame) []ssa.Instruction {
	firstNonPhi := -1
	for i, instr := range fr.block.Instrs {
		if _, ok := instr.(*ssa.Phi); !ok {
			firstNonPhi = i
			break
		}
	}
	nonPhis := fr.block.Instrs[firstNonPhi:]
	if firstNonPhi > 0 {
		phis := fr.block.Instrs[:firstNonPhi]
		predIndex := slices.Index(fr.block.Preds, fr.prevBlock)
		fr.phitemps = fr.phitemps[:0]
		for _, phi := range phis {
			phi := phi.(*ssa.Phi)
			fr.phitemps = append(fr.phitemps, fr.get(phi.Edges[predIndex]))
		}
		for i, phi := range phis {
			fr.env[phi.(*ssa.Phi)] = fr.phitemps[i]
		}
	}
	return nonPhis
}

func (fr *frame) runDefer(d *deferred) {
	var ok bool
	defer func() {
		if !ok {
			p := recover()
			if _, isT := p.(targetPanic); !isT {
				panic(p)
			}
			fr.panicking = true
			fr.panic = p
		}
	}()
	fr.m.call(fr, d.instr.Pos(), d.fn, d.args)
	ok = true
}

func (fr *frame) runDefers() {
	for d := fr.defers; d != nil; d = d.tail {
		fr.runDefer(d)
	}
	fr.defers = nil
	if fr.panicking {
		panic(fr.panic)
	}
}

func (m *Machine) doRecover(caller *frame) value {
	if caller != nil && !caller.panicking && caller.caller != nil && caller.caller.panicking {
		caller.caller.panicking = false
		m.panicStack = ""
		p := caller.caller.panic
		caller.caller.panic = nil
		switch p := p.(type) {
		case targetPanic:
			return p.v
		default:
			panic(fmt.Sprintf("unexpected panic type %T in target call to recover()", p))
		}
	}
	return iface{}
}

// ---- builtins ----

func (m *Machine) callBuiltin(caller *frame, callpos token.Pos, fn *ssa.Builtin, args []value) value {
	switch fn.Name() {
	case "append":
		if len(args) == 1 {
			return args[0]
		}
		if isStrVal(args[1]) {
			arg0 := args[0].([]value)
			return append(arg0, strBytes(args[1])...)
		}
		a1 := args[1].([]value)
		if len(a1) == 0 {
			return args[0]
		}
		cp := make([]value, len(a1))
		for i := range a1 {
			cp[i] = copyVal(a1[i])
		}
		return append(args[0].([]value), cp...)

	case "copy":
		src := args[1]
		var s []value
		if isStrVal(src) {
			s = strBytes(src)
		} else {
			s = src.([]value)
		}
		dst := args[0].([]value)
		n := len(s)
		if len(dst) < n {
			n = len(dst)
		}
		tmp := make([]value, n)
		for i := 0; i < n; i++ {
			tmp[i] = copyVal(s[i])
		}
		for i := 0; i < n; i++ {
			store(&dst[i], tmp[i])
		}
		return n

	case "close":
		panic(unsupported{"close(chan)"})

	case "delete":
		m.mapDelete(args[0].(*mapv), args[1])
		return nil

	case "print", "println":
		return nil

	case "len":
		switch x := args[0].(type) {
		case string:
			return len(x)
		case sstr:
			return len(x)
		case array:
			return len(x)
		case *value:
			return len((*x).(array))
		case []value:
			return len(x)
		case *mapv:
			return x.len()
		case *native:
			return 0
		default:
			panic(fmt.Sprintf("len: illegal operand: %T", x))
		}

	case "cap":
		switch x := args[0].(type) {
		case array:
			return cap(x)
		case *value:
			return cap((*x).(array))
		case []value:
			return cap(x)
		case *native:
			return 0
		default:
			panic(fmt.Sprintf("cap: illegal operand: %T", x))
		}

	case "min", "max":
		x := args[0]
		for _, y := range args[1:] {
			if isSym(x) || isSym(y) {
				t := fn.Type().(*types.Signature).Params().At(0).Type()
				op := token.LSS
				if fn.Name() == "max" {
					op = token.GTR
				}
				c := m.binop(op, t, t, y, x)
				x = m.fromTerm(t, m.ts.Ite(m.toTerm(c), m.toTerm(y), m.toTerm(x)))
			} else if fn.Name() == "min" {
				x = min(x, y)
			} else {
				x = max(x, y)
			}
		}
		return x

	case "panic":
		panic(targetPanic{args[0]})

	case "recover":
		return m.doRecover(caller)

	case "ssa:wrapnilchk":
		recv := args[0]
		if recv.(*value) == nil {
			panic(targetPanic{v: runtimeError(fmt.Sprintf("value method (%s).%s called using nil *%s pointer", args[1], args[2], args[1]))})
		}
		return recv

	case "ssa:deferstack":
		return &caller.defers

	case "real", "imag", "complex":
		panic(unsupported{"complex numbers"})
	}
	panic("unknown built-in: " + fn.Name())
}

func isFunc(v value) bool {
	switch v.(type) {
	case *ssa.Function, *closure, *ssa.Builtin, *builtinMethod:
		return true
	}
	return false
}

func funcIsNil(v value) bool {
	switch f := v.(type) {
	case *ssa.Function:
		return f == nil
	case *closure:
		return f == nil
	}
	return false
}

func stackOf() string {
	buf := make([]byte, 1<<14)
	n := runtime.Stack(buf, false)
	return string(buf[:n])
}

// targetStack renders the interpreted call stack.
func (m *Machine) targetStack(fr *frame) string {
	var sb strings.Builder
	for f := fr; f != nil; f = f.caller {
		fmt.Fprintf(&sb, "  %s", f.fn)
		if f.callpos.IsValid() {
			fmt.Fprintf(&sb, " (called at %s)", m.P.Prog.Fset.Position(f.callpos))
		}
		sb.WriteByte('\n')
	}
	return sb.String()
}
