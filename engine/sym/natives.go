package sym

// Opaque native objects: regular expressions run natively on concrete subjects.

import (
	"crypto/md5"
	"crypto/sha1"
	"go/types"
	"net"
	"regexp"
)

func init() {
	for k, v := range map[string]externalFn{
		"crypto/md5.Sum": func(m *Machine, fr *frame, a []value) value {
			sum := md5.Sum(m.concBytes(a[0], "md5.Sum"))
			out := make(array, len(sum))
			for i, b := range sum {
				out[i] = b
			}
			return out
		},
		"crypto/sha1.Sum": func(m *Machine, fr *frame, a []value) value {
			sum := sha1.Sum(m.concBytes(a[0], "sha1.Sum"))
			out := make(array, len(sum))
			for i, b := range sum {
				out[i] = b
			}
			return out
		},
		"net.ParseIP": func(m *Machine, fr *frame, a []value) value {
			ip := net.ParseIP(m.concStr(a[0], "net.ParseIP"))
			if ip == nil {
				return []value(nil)
			}
			out := make([]value, len(ip))
			for i, b := range ip {
				out[i] = b
			}
			return out
		},
		"regexp.MustCompile": func(m *Machine, fr *frame, a []value) value {
			re, err := regexp.Compile(m.concStr(a[0], "regexp.MustCompile"))
			if err != nil {
				panic(targetPanic{v: runtimeError("regexp: " + err.Error())})
			}
			p := new(value)
			*p = &native{v: re}
			return p
		},
		"regexp.Compile": func(m *Machine, fr *frame, a []value) value {
			re, err := regexp.Compile(m.concStr(a[0], "regexp.Compile"))
			if err != nil {
				return tuple{(*value)(nil), m.mkError(fr, err.Error())}
			}
			p := new(value)
			*p = &native{v: re}
			return tuple{p, iface{}}
		},
		"regexp.QuoteMeta": func(m *Machine, fr *frame, a []value) value {
			return regexp.QuoteMeta(m.concStr(a[0], "regexp.QuoteMeta"))
		},
		"regexp.MatchString": func(m *Machine, fr *frame, a []value) value {
			ok, err := regexp.MatchString(m.concStr(a[0], "regexp.MatchString"), m.concStr(a[1], "regexp.MatchString"))
			if err != nil {
				return tuple{false, m.mkError(fr, err.Error())}
			}
			return tuple{ok, iface{}}
		},
		"(*regexp.Regexp).MatchString": func(m *Machine, fr *frame, a []value) value {
			return reOf(a[0]).MatchString(m.concStr(a[1], "Regexp.MatchString"))
		},
		"(*regexp.Regexp).String": func(m *Machine, fr *frame, a []value) value {
			return reOf(a[0]).String()
		},
		"(*regexp.Regexp).FindString": func(m *Machine, fr *frame, a []value) value {
			return reOf(a[0]).FindString(m.concStr(a[1], "Regexp.FindString"))
		},
		"(*regexp.Regexp).FindStringSubmatch": func(m *Machine, fr *frame, a []value) value {
			return strSliceVal(reOf(a[0]).FindStringSubmatch(m.concStr(a[1], "Regexp.FindStringSubmatch")))
		},
		"(*regexp.Regexp).FindAllString": func(m *Machine, fr *frame, a []value) value {
			return strSliceVal(reOf(a[0]).FindAllString(m.concStr(a[1], "Regexp.FindAllString"), a[2].(int)))
		},
		"(*regexp.Regexp).FindAllStringSubmatch": func(m *Machine, fr *frame, a []value) value {
			r := reOf(a[0]).FindAllStringSubmatch(m.concStr(a[1], "Regexp.FindAllStringSubmatch"), a[2].(int))
			if r == nil {
				return []value(nil)
			}
			out := make([]value, len(r))
			for i := range r {
				out[i] = strSliceVal(r[i])
			}
			return out
		},
		"(*regexp.Regexp).ReplaceAllString": func(m *Machine, fr *frame, a []value) value {
			return reOf(a[0]).ReplaceAllString(m.concStr(a[1], "Regexp.ReplaceAllString"), m.concStr(a[2], "Regexp.ReplaceAllString"))
		},
		"(*regexp.Regexp).Split": func(m *Machine, fr *frame, a []value) value {
			return strSliceVal(reOf(a[0]).Split(m.concStr(a[1], "Regexp.Split"), a[2].(int)))
		},
	} {
		externals[k] = v
	}
}

func reOf(v value) *regexp.Regexp {
	p := v.(*value)
	return (*p).(*native).v.(*regexp.Regexp)
}

func strSliceVal(ss []string) value {
	if ss == nil {
		return []value(nil)
	}
	out := make([]value, len(ss))
	for i, s := range ss {
		out[i] = s
	}
	return out
}

func (m *Machine) concBytes(v value, what string) []byte {
	sl, _ := v.([]value)
	out := make([]byte, len(sl))
	for i, b := range sl {
		c, ok := b.(byte)
		if !ok {
			panic(unsupported{what + " on symbolic bytes"})
		}
		out[i] = c
	}
	return out
}

func init() {
	// github.com/jinzhu/copier.Copy(to, from): reflection-driven in reality; modelled as a deep
	// copy of the source value into the destination cell (the only use, config.Commit, copies a
	// Global struct that has no pointer fields).
	externals["github.com/jinzhu/copier.Copy"] = func(m *Machine, fr *frame, a []value) value {
		to, from := a[0].(iface), a[1].(iface)
		dst, ok1 := to.v.(*value)
		src, ok2 := from.v.(*value)
		if !ok1 || !ok2 || dst == nil || src == nil {
			panic(unsupported{"copier.Copy with non-pointer operands"})
		}
		store(dst, deepCopyVal(*src, map[*value]*value{}))
		return iface{}
	}
}

func deepCopyVal(v value, memo map[*value]*value) value {
	switch x := v.(type) {
	case structure:
		out := make(structure, len(x))
		for i := range x {
			out[i] = deepCopyVal(x[i], memo)
		}
		return out
	case array:
		out := make(array, len(x))
		for i := range x {
			out[i] = deepCopyVal(x[i], memo)
		}
		return out
	case []value:
		if x == nil {
			return []value(nil)
		}
		out := make([]value, len(x))
		for i := range x {
			out[i] = deepCopyVal(x[i], memo)
		}
		return out
	case *value:
		if x == nil {
			return x
		}
		if p, ok := memo[x]; ok {
			return p
		}
		p := new(value)
		memo[x] = p
		*p = deepCopyVal(*x, memo)
		return p
	case *mapv:
		if x == nil {
			return x
		}
		out := newMap(x.keyT)
		for _, e := range x.entries {
			if e.deleted {
				continue
			}
			ne := &mentry{key: e.key, val: deepCopyVal(e.val, memo), symKey: e.symKey}
			out.entries = append(out.entries, ne)
			if kr, conc := keyRepr(e.key); conc {
				out.idx[kr] = ne
			} else {
				out.nsym++
			}
			out.n++
		}
		return out
	case iface:
		return iface{t: x.t, v: deepCopyVal(x.v, memo)}
	}
	return v
}

func init() {
	externals["reflect.TypeOf"] = func(m *Machine, fr *frame, a []value) value {
		itf := a[0].(iface)
		if itf.t == nil {
			return iface{}
		}
		return m.reflectType(itf.t)
	}
}

// reflectType wraps a types.Type as a reflect.Type interface value.
func (m *Machine) reflectType(t types.Type) value {
	pkg := m.P.Prog.ImportedPackage("reflect")
	if pkg == nil {
		panic(unsupported{"reflect package not loaded"})
	}
	rt := pkg.Type("rtype")
	if rt == nil {
		panic(unsupported{"reflect.rtype not found"})
	}
	return iface{t: types.NewPointer(rt.Type()), v: rtype{t}}
}

func init() {
	externals["errors.Is"] = func(m *Machine, fr *frame, a []value) value {
		err, target := a[0].(iface), a[1].(iface)
		for depth := 0; depth < 32 && err.t != nil; depth++ {
			if sameType(err.t, target.t) {
				if kr, ok := keyRepr(err.v); ok {
					if kt, ok2 := keyRepr(target.v); ok2 && kr == kt {
						return true
					}
				}
			}
			next := m.unwrapErr(fr, err)
			if next == nil {
				break
			}
			err = *next
		}
		return target.t == nil && err.t == nil
	}
	externals["errors.As"] = func(m *Machine, fr *frame, a []value) value {
		err, target := a[0].(iface), a[1].(iface)
		tp, ok := target.v.(*value)
		if !ok || tp == nil {
			panic(targetPanic{v: runtimeError("errors: target must be a non-nil pointer")})
		}
		tt := deref(target.t)
		for depth := 0; depth < 32 && err.t != nil; depth++ {
			if it, isIface := tt.Underlying().(*types.Interface); isIface {
				if meth, _ := types.MissingMethod(err.t, it, true); meth == nil {
					store(tp, err)
					return true
				}
			} else if types.Identical(err.t, tt) {
				store(tp, err.v)
				return true
			}
			next := m.unwrapErr(fr, err)
			if next == nil {
				break
			}
			err = *next
		}
		return false
	}
}

// unwrapErr calls err.Unwrap() error when the dynamic type has it.
func (m *Machine) unwrapErr(fr *frame, err iface) *iface {
	ms := m.P.Prog.MethodSets.MethodSet(err.t)
	for i := 0; i < ms.Len(); i++ {
		sel := ms.At(i)
		if sel.Obj().Name() != "Unwrap" {
			continue
		}
		sig := sel.Type().(*types.Signature)
		if sig.Params().Len() != 0 || sig.Results().Len() != 1 {
			return nil
		}
		if _, isSlice := sig.Results().At(0).Type().Underlying().(*types.Slice); isSlice {
			return nil
		}
		r := m.call(fr, 0, m.P.Prog.MethodValue(sel), []value{err.v})
		if ri, ok := r.(iface); ok && ri.t != nil {
			return &ri
		}
		return nil
	}
	return nil
}
