package sym

// Opaque native objects: regular expressions run natively on concrete subjects.

import (
	"crypto/md5"
	"crypto/sha1"
	"net"
	"regexp"
)

func init() {
	for k, v := range map[string]externalFn{
		"crypto/md5.Sum": func(m *Machine, fr *frame, a []value) value {
			sum := md5.Sum(m.concBytes(a[0], "md5.Sum"))
			out := make(array, len(sum))
			for i, b := range sum {
				out[i] = b
			}
			return out
		},
		"crypto/sha1.Sum": func(m *Machine, fr *frame, a []value) value {
			sum := sha1.Sum(m.concBytes(a[0], "sha1.Sum"))
			out := make(array, len(sum))
			for i, b := range sum {
				out[i] = b
			}
			return out
		},
		"net.ParseIP": func(m *Machine, fr *frame, a []value) value {
			ip := net.ParseIP(m.concStr(a[0], "net.ParseIP"))
			if ip == nil {
				return []value(nil)
			}
			out := make([]value, len(ip))
			for i, b := range ip {
				out[i] = b
			}
			return out
		},
		"regexp.MustCompile": func(m *Machine, fr *frame, a []value) value {
			re, err := regexp.Compile(m.concStr(a[0], "regexp.MustCompile"))
			if err != nil {
				panic(targetPanic{v: runtimeError("regexp: " + err.Error())})
			}
			p := new(value)
			*p = &native{v: re}
			return p
		},
		"regexp.Compile": func(m *Machine, fr *frame, a []value) value {
			re, err := regexp.Compile(m.concStr(a[0], "regexp.Compile"))
			if err != nil {
				return tuple{(*value)(nil), m.mkError(fr, err.Error())}
			}
			p := new(value)
			*p = &native{v: re}
			return tuple{p, iface{}}
		},
		"regexp.QuoteMeta": func(m *Machine, fr *frame, a []value) value {
			return regexp.QuoteMeta(m.concStr(a[0], "regexp.QuoteMeta"))
		},
		"regexp.MatchString": func(m *Machine, fr *frame, a []value) value {
			ok, err := regexp.MatchString(m.concStr(a[0], "regexp.MatchString"), m.concStr(a[1], "regexp.MatchString"))
			if err != nil {
				return tuple{false, m.mkError(fr, err.Error())}
			}
			return tuple{ok, iface{}}
		},
		"(*regexp.Regexp).MatchString": func(m *Machine, fr *frame, a []value) value {
			return reOf(a[0]).MatchString(m.concStr(a[1], "Regexp.MatchString"))
		},
		"(*regexp.Regexp).String": func(m *Machine, fr *frame, a []value) value {
			return reOf(a[0]).String()
		},
		"(*regexp.Regexp).FindString": func(m *Machine, fr *frame, a []value) value {
			return reOf(a[0]).FindString(m.concStr(a[1], "Regexp.FindString"))
		},
		"(*regexp.Regexp).FindStringSubmatch": func(m *Machine, fr *frame, a []value) value {
			return strSliceVal(reOf(a[0]).FindStringSubmatch(m.concStr(a[1], "Regexp.FindStringSubmatch")))
		},
		"(*regexp.Regexp).FindAllString": func(m *Machine, fr *frame, a []value) value {
			return strSliceVal(reOf(a[0]).FindAllString(m.concStr(a[1], "Regexp.FindAllString"), a[2].(int)))
		},
		"(*regexp.Regexp).FindAllStringSubmatch": func(m *Machine, fr *frame, a []value) value {
			r := reOf(a[0]).FindAllStringSubmatch(m.concStr(a[1], "Regexp.FindAllStringSubmatch"), a[2].(int))
			if r == nil {
				return []value(nil)
			}
			out := make([]value, len(r))
			for i := range r {
				out[i] = strSliceVal(r[i])
			}
			return out
		},
		"(*regexp.Regexp).ReplaceAllString": func(m *Machine, fr *frame, a []value) value {
			return reOf(a[0]).ReplaceAllString(m.concStr(a[1], "Regexp.ReplaceAllString"), m.concStr(a[2], "Regexp.ReplaceAllString"))
		},
		"(*regexp.Regexp).Split": func(m *Machine, fr *frame, a []value) value {
			return strSliceVal(reOf(a[0]).Split(m.concStr(a[1], "Regexp.Split"), a[2].(int)))
		},
	} {
		externals[k] = v
	}
}

func reOf(v value) *regexp.Regexp {
	p := v.(*value)
	return (*p).(*native).v.(*regexp.Regexp)
}

func strSliceVal(ss []string) value {
	if ss == nil {
		return []value(nil)
	}
	out := make([]value, len(ss))
	for i, s := range ss {
		out[i] = s
	}
	return out
}

func (m *Machine) concBytes(v value, what string) []byte {
	sl, _ := v.([]value)
	out := make([]byte, len(sl))
	for i, b := range sl {
		c, ok := b.(byte)
		if !ok {
			panic(unsupported{what + " on symbolic bytes"})
		}
		out[i] = c
	}
	return out
}
