// vcheck: bounded symbolic checking of haproxy-ingress properties.
//
//	vcheck run <property> [--tier quick|thorough] [--only Func] [-v]
//	vcheck replay <path>
package main

import (
	"encoding/json"
	"flag"
	"fmt"
	"os"
	"os/exec"
	"path/filepath"
	"runtime"
	"sort"
	"strconv"
	"strings"
	"time"

	"verif/engine/sym"
)

const modPath = "github.com/jcmoraisjr/haproxy-ingress"

type tierCfg struct {
	Params          map[string]int `json:"params"`
	Unwind          int            `json:"unwind"`
	PermuteMaps     int            `json:"permute_maps"`
	MaxPaths        int            `json:"max_paths"`
	SolverTimeoutMs int            `json:"solver_timeout_ms"`
	TimeoutS        int            `json:"timeout_s"`
	Solver          string         `json:"solver"`
	Skip            bool           `json:"skip"`
	OneShot         bool           `json:"oneshot"`
	MaxViolations   int            `json:"max_violations"`
	FallbackMs      int            `json:"fallback_ms"`
}

type harnessSpec struct {
	Func      string            `json:"func"`
	Pkg       string            `json:"pkg"`
	Reach     []string          `json:"reach"` // witnesses that must be reached on at least one path
	Quick     tierCfg           `json:"quick"`
	Thorough  tierCfg           `json:"thorough"`
	About     string            `json:"about"`
	Bounds    string            `json:"bounds"`
	NoReplay  bool              `json:"no_replay"`
	Stubs     map[string]string `json:"stubs"`      // function -> harness replacement used by the symbolic run
	FakeClock bool              `json:"fake_clock"` // native replay inside a testing/synctest bubble (built with go1.26.8) // counterexamples cannot be replayed natively (stated why in About)
}

type propSpec struct {
	Property    string            `json:"property"`
	Files       map[string]string `json:"files"` // harness file -> package dir under /repo
	Harnesses   []harnessSpec     `json:"harnesses"`
	Assumptions []string          `json:"assumptions"`
	ExtraPkgs   []string          `json:"extra_pkgs"`
}

type knownFinding struct {
	Kind     string `json:"kind"` // "known" or "fixed"
	Property string `json:"property"`
	Harness  string `json:"harness,omitempty"`
	AssertID string `json:"assert_id,omitempty"`
	Class    string `json:"class,omitempty"` // substring that must occur in the counterexample's recorded notes
	Commit   string `json:"commit,omitempty"`
	What     string `json:"what"`
}

var (
	verifDir = envOr("VERIF_DIR", "/verif")
	repoDir  = envOr("VERIF_REPO", "/repo")
)

func envOr(k, d string) string {
	if v := os.Getenv(k); v != "" {
		return v
	}
	return d
}

func main() {
	if len(os.Args) < 3 {
		fmt.Fprintln(os.Stderr, "usage: vcheck run <property> [--tier quick|thorough] | vcheck replay <path>")
		os.Exit(2)
	}
	switch os.Args[1] {
	case "run":
		os.Exit(cmdRun(os.Args[2], os.Args[3:]))
	case "replay":
		os.Exit(cmdReplay(os.Args[2]))
	}
	fmt.Fprintln(os.Stderr, "unknown command")
	os.Exit(2)
}

func loadSpec(id string) (*propSpec, error) {
	raw, err := os.ReadFile(filepath.Join(verifDir, "harness", id, "harness.json"))
	if err != nil {
		return nil, err
	}
	var sp propSpec
	if err := json.Unmarshal(raw, &sp); err != nil {
		return nil, fmt.Errorf("harness.json: %w", err)
	}
	return &sp, nil
}

// overlayFiles maps virtual /repo paths to real files under /verif.
func overlayFiles(id string, sp *propSpec) map[string]string {
	ov := map[string]string{
		filepath.Join(repoDir, "pkg/zzverifnd/nd.go"): filepath.Join(verifDir, "harness/nd/nd.go"),
	}
	for f, pkg := range sp.Files {
		ov[filepath.Join(repoDir, pkg, "zz_verif_"+filepath.Base(f))] = filepath.Join(verifDir, "harness", id, f)
	}
	return ov
}

type harnessResult struct {
	Spec            harnessSpec
	Report          *sym.Report
	Confirmed       []confirmedViolation
	Unconfirmed     []string
	TracesValidated int
	TraceMismatches []string
	MissingReach    []string
}

type confirmedViolation struct {
	V      sym.Violation
	Path   string
	Known  *knownFinding
	Native string
}

func cmdRun(id string, args []string) int {
	fs := flag.NewFlagSet("run", flag.ExitOnError)
	tier := fs.String("tier", envOr("VERIF_TIER", "quick"), "quick|thorough")
	only := fs.String("only", "", "run only this harness function")
	verbose := fs.Bool("v", false, "verbose")
	workers := fs.Int("workers", 0, "worker count (default: cores)")
	noreplay := fs.Bool("no-replay", false, "skip native replay (debugging only; never registered)")
	fs.Parse(args)
	seed, _ := strconv.Atoi(envOr("VERIF_SEED", "0"))
	t0 := time.Now()

	sp, err := loadSpec(id)
	if err != nil {
		fmt.Fprintln(os.Stderr, "error:", err)
		return 2
	}
	ovFiles := overlayFiles(id, sp)
	overlay := map[string][]byte{}
	for virt, real := range ovFiles {
		b, err := os.ReadFile(real)
		if err != nil {
			fmt.Fprintln(os.Stderr, "error:", err)
			return 2
		}
		overlay[virt] = b
	}
	pkgset := map[string]bool{}
	for _, h := range sp.Harnesses {
		pkgset[h.Pkg] = true
	}
	var patterns []string
	for p := range pkgset {
		patterns = append(patterns, "./"+p)
	}
	for _, p := range sp.ExtraPkgs {
		patterns = append(patterns, "./"+p)
	}
	sort.Strings(patterns)
	tl := time.Now()
	prog, err := sym.Load(repoDir, patterns, overlay)
	if err != nil {
		fmt.Fprintln(os.Stderr, "error: loading /repo failed (the tree must compile):", err)
		return 2
	}
	loadT := time.Since(tl)
	if *verbose {
		fmt.Fprintf(os.Stderr, "loaded in %v\n", loadT)
	}
	known := loadKnown()

	var results []*harnessResult
	exit := 0
	inconclusive := false
	for hidx, h := range sp.Harnesses {
		if *only != "" && h.Func != *only {
			continue
		}
		tc := h.Quick
		if *tier == "thorough" {
			tc = h.Thorough
			if tc.Params == nil && tc.Unwind == 0 && tc.MaxPaths == 0 {
				tc = h.Quick
			}
		}
		if tc.Skip {
			continue
		}
		fn := prog.FuncByName(modPath+"/"+h.Pkg, h.Func)
		if fn == nil {
			fmt.Fprintf(os.Stderr, "error: harness function %s not found in %s\n", h.Func, h.Pkg)
			return 2
		}
		cfg := sym.DefaultConfig()
		cfg.Workers = runtime.NumCPU()
		if *workers > 0 {
			cfg.Workers = *workers
		}
		if tc.Unwind > 0 {
			cfg.Unwind = tc.Unwind
		}
		if tc.MaxPaths > 0 {
			cfg.MaxPaths = tc.MaxPaths
		}
		if tc.SolverTimeoutMs > 0 {
			cfg.SolverTimeoutMs = tc.SolverTimeoutMs
		}
		if tc.Solver != "" {
			cfg.Solver = tc.Solver
		}
		if sv := os.Getenv("VCHECK_SOLVER"); sv != "" {
			cfg.Solver = sv
		}
		if tc.TimeoutS > 0 {
			cfg.Deadline = time.Now().Add(time.Duration(tc.TimeoutS) * time.Second)
		}
		cfg.Stubs = h.Stubs
		if tc.MaxViolations > 0 {
			cfg.MaxViolations = tc.MaxViolations
		}
		cfg.OneShot = tc.OneShot
		if tc.FallbackMs > 0 {
			cfg.FallbackMs = tc.FallbackMs
		}
		cfg.PermuteMaps = tc.PermuteMaps
		cfg.Params = tc.Params
		cfg.Verbose = *verbose
		cfg.StopAtViolation = true
		cfg.Seed = seed
		cfg.Paranoid = os.Getenv("VCHECK_PARANOID") != ""
		ex := sym.NewExplorer(prog, fn, cfg)
		rep := ex.Run()
		hr := &harnessResult{Spec: h, Report: rep}
		results = append(results, hr)
		fmt.Printf("[%s] %s: paths=%d pruned=%d decisions=%d forks=%d queries=%d solver=%.1fs wall=%.1fs violations=%d inconclusive=%d\n",
			id, h.Func, rep.Stats.Paths, rep.Stats.Pruned, rep.Stats.Decisions, rep.Stats.Forks, rep.Queries, rep.SolverTime.Seconds(), rep.Wall.Seconds(), len(rep.Violations), len(rep.Inconclusive))
		if *verbose && rep.BranchStats != nil {
			type kv struct {
				k string
				v [2]int
			}
			var l []kv
			for k, v := range rep.BranchStats {
				l = append(l, kv{k, v})
			}
			sort.Slice(l, func(i, j int) bool { return l[i].v[0] > l[j].v[0] })
			for i, e := range l {
				if i > 25 {
					break
				}
				fmt.Fprintf(os.Stderr, "  branch %6d forked %6d  %s\n", e.v[0], e.v[1], e.k)
			}
		}
		for _, w := range h.Reach {
			if rep.Reached[w] == 0 && len(rep.Violations) == 0 {
				hr.MissingReach = append(hr.MissingReach, w)
			}
		}
		// native replay of counterexamples and of path witnesses
		if !*noreplay && !h.NoReplay {
			replayNative(id, sp, ovFiles, h, hidx, tc, hr, known, *verbose)
		} else {
			for i := range rep.Violations {
				v := rep.Violations[i]
				p := saveReplay(id, h, tc, v.Witness, fmt.Sprintf("%s-%d-%d", h.Func, hidx, i))
				hr.Confirmed = append(hr.Confirmed, confirmedViolation{V: v, Path: p, Known: matchKnown(known, id, h.Func, v), Native: "not replayed"})
			}
		}
	}

	// verdict
	violations := 0
	knownPrinted := map[string]bool{}
	knownCount := 0
	for _, hr := range results {
		rep := hr.Report
		for _, c := range hr.Confirmed {
			if c.Known != nil {
				if !knownPrinted[c.Known.What] {
					knownPrinted[c.Known.What] = true
					fmt.Printf("KNOWN-FINDING: property=%s %s\n", id, c.Known.What)
				}
				knownCount++
				continue
			}
			violations++
			fmt.Printf("VIOLATION property=%s replay=%s\n", id, c.Path)
			fmt.Printf("  harness=%s assertion=%s native=%s\n", hr.Spec.Func, c.V.AssertID, c.Native)
			for _, r := range c.V.Recorded {
				fmt.Printf("  note: %s\n", r)
			}
			keys := make([]string, 0, len(c.V.Witness.Inputs))
			for k := range c.V.Witness.Inputs {
				keys = append(keys, k)
			}
			sort.Strings(keys)
			for _, k := range keys {
				fmt.Printf("  %s = %s\n", k, c.V.Witness.Inputs[k])
			}
			exit = 1
		}
		for _, u := range hr.Unconfirmed {
			fmt.Printf("INCONCLUSIVE property=%s harness=%s: %s\n", id, hr.Spec.Func, u)
			inconclusive = true
		}
		for _, msg := range rep.Inconclusive {
			fmt.Printf("INCONCLUSIVE property=%s harness=%s: %s\n", id, hr.Spec.Func, msg)
			inconclusive = true
		}
		for _, msg := range hr.TraceMismatches {
			fmt.Printf("INCONCLUSIVE property=%s harness=%s: interpreter/native trace mismatch: %s\n", id, hr.Spec.Func, msg)
			inconclusive = true
		}
		for _, w := range hr.MissingReach {
			fmt.Printf("INCONCLUSIVE property=%s harness=%s: vacuity: witness %q reached on no path\n", id, hr.Spec.Func, w)
			inconclusive = true
		}
		if len(rep.SolverErrors) > 0 {
			fmt.Printf("INCONCLUSIVE property=%s harness=%s: solver errors: %s\n", id, hr.Spec.Func, strings.Join(firstN(rep.SolverErrors, 3), " | "))
			inconclusive = true
		}
		if rep.PathLimit || rep.TimedOut {
			fmt.Printf("INCONCLUSIVE property=%s harness=%s: exploration cut (path limit %v, deadline %v)\n", id, hr.Spec.Func, rep.PathLimit, rep.TimedOut)
			inconclusive = true
		}
		if rep.OneShots > 0 || rep.SolverTimeouts > 0 {
			fmt.Printf("note: %d queries decided by a non-incremental solver run (%d incremental timeouts)\n", rep.OneShots, rep.SolverTimeouts)
		}
		if rep.UnknownBranch > 0 {
			fmt.Printf("note: %d branch feasibility queries returned unknown (both sides explored)\n", rep.UnknownBranch)
		}
	}
	writeEvidence(id, *tier, seed, sp, results, time.Since(t0), loadT, violations, inconclusive)
	_ = knownCount
	if exit == 0 && inconclusive {
		return 2
	}
	if exit == 0 {
		fmt.Printf("OK property=%s tier=%s (%d harnesses, %.1fs)\n", id, *tier, len(results), time.Since(t0).Seconds())
	}
	return exit
}

func firstN(s []string, n int) []string {
	if len(s) > n {
		return s[:n]
	}
	return s
}

func loadKnown() []knownFinding {
	raw, err := os.ReadFile(filepath.Join(verifDir, "known_findings.json"))
	if err != nil {
		return nil
	}
	var k struct {
		Findings []knownFinding `json:"findings"`
	}
	if err := json.Unmarshal(raw, &k); err != nil {
		fmt.Fprintln(os.Stderr, "warning: known_findings.json unreadable:", err)
		return nil
	}
	return k.Findings
}

func matchKnown(known []knownFinding, id, harness string, v sym.Violation) *knownFinding {
	for i := range known {
		k := &known[i]
		if k.Kind != "known" || k.Property != id {
			continue
		}
		if k.Harness != "" && k.Harness != harness {
			continue
		}
		if k.AssertID != "" && k.AssertID != v.AssertID {
			continue
		}
		if k.Class != "" {
			found := false
			for _, r := range v.Recorded {
				if strings.Contains(r, k.Class) {
					found = true
				}
			}
			if !found {
				continue
			}
		}
		return k
	}
	return nil
}

type replayVec struct {
	Property string            `json:"property"`
	Harness  string            `json:"harness"`
	Pkg      string            `json:"pkg"`
	Entry    string            `json:"entry"`
	Inputs   map[string]string `json:"inputs"`
	Params   map[string]int    `json:"params"`
	AssertID string            `json:"assert_id,omitempty"`
	Events   []string          `json:"events,omitempty"`
}

func saveReplay(id string, h harnessSpec, tc tierCfg, w sym.Witness, name string) string {
	dir := filepath.Join(verifDir, "replays", id)
	os.MkdirAll(dir, 0o755)
	p := filepath.Join(dir, name+".json")
	rv := replayVec{Property: id, Harness: h.Func, Pkg: h.Pkg, Entry: h.Func, Inputs: w.Inputs, Params: tc.Params, Events: w.Events}
	b, _ := json.MarshalIndent(rv, "", " ")
	os.WriteFile(p, b, 0o644)
	return p
}

type nativeOut struct {
	Entry    string   `json:"entry"`
	Outcome  string   `json:"outcome"`
	Events   []string `json:"events"`
	Recorded []string `json:"recorded"`
}

// runNative compiles the harness natively (go test -overlay) and runs the vectors in vecDir.
func runNative(id string, sp *propSpec, ovFiles map[string]string, pkg string, funcs []string, vecDir string, verbose bool, fakeClock bool) (string, error) {
	tmp, err := os.MkdirTemp("", "vcheck-native-")
	if err != nil {
		return "", err
	}
	defer os.RemoveAll(tmp)
	// generated test file
	var sb strings.Builder
	pkgName, err := packageName(filepath.Join(repoDir, pkg))
	if err != nil {
		return "", err
	}
	if fakeClock {
		fmt.Fprintf(&sb, "package %s\n\nimport (\n\t\"testing\"\n\t\"testing/synctest\"\n\tnd \"%s/pkg/zzverifnd\"\n)\n\nfunc TestZZVerifReplay(t *testing.T) {\n\tnd.RunReplayWith(t, map[string]func(){\n", pkgName, modPath)
	} else {
		fmt.Fprintf(&sb, "package %s\n\nimport (\n\t\"testing\"\n\tnd \"%s/pkg/zzverifnd\"\n)\n\nfunc TestZZVerifReplay(t *testing.T) {\n\tnd.RunReplay(t, map[string]func(){\n", pkgName, modPath)
	}
	for _, f := range funcs {
		fmt.Fprintf(&sb, "\t\t%q: %s,\n", f, f)
	}
	if fakeClock {
		sb.WriteString("\t}, func(run func()) { synctest.Test(t, func(*testing.T) { run() }) })\n}\n")
	} else {
		sb.WriteString("\t})\n}\n")
	}
	testFile := filepath.Join(tmp, "zz_verif_replay_test.go")
	os.WriteFile(testFile, []byte(sb.String()), 0o644)
	repl := map[string]string{}
	for v, r := range ovFiles {
		repl[v] = r
	}
	repl[filepath.Join(repoDir, pkg, "zz_verif_replay_test.go")] = testFile
	ovb, _ := json.Marshal(map[string]interface{}{"Replace": repl})
	ovPath := filepath.Join(tmp, "overlay.json")
	os.WriteFile(ovPath, ovb, 0o644)
	gobin := "go"
	if fakeClock {
		gobin = "go1.26.8"
	}
	cmd := exec.Command(gobin, "test", "-vet=off", "-count=1", "-timeout", "10m", "-overlay", ovPath, "-run", "^TestZZVerifReplay$", "-v", "./"+pkg+"/")
	cmd.Dir = repoDir
	cmd.Env = append(os.Environ(), "GOFLAGS=-mod=mod", "GOPROXY=off", "GOSUMDB=off", "GOTOOLCHAIN=local", "VERIF_REPLAY_DIR="+vecDir)
	out, err := cmd.CombinedOutput()
	if verbose {
		fmt.Fprintln(os.Stderr, string(out))
	}
	if err != nil && !strings.Contains(string(out), "--- ") {
		return string(out), fmt.Errorf("native build/run failed: %v", err)
	}
	return string(out), nil
}

func packageName(dir string) (string, error) {
	ents, err := os.ReadDir(dir)
	if err != nil {
		return "", err
	}
	for _, e := range ents {
		if strings.HasSuffix(e.Name(), ".go") && !strings.HasSuffix(e.Name(), "_test.go") {
			b, err := os.ReadFile(filepath.Join(dir, e.Name()))
			if err != nil {
				continue
			}
			for _, l := range strings.Split(string(b), "\n") {
				l = strings.TrimSpace(l)
				if strings.HasPrefix(l, "package ") {
					return strings.Fields(l)[1], nil
				}
			}
		}
	}
	return "", fmt.Errorf("no package clause found in %s", dir)
}

func replayNative(id string, sp *propSpec, ovFiles map[string]string, h harnessSpec, hidx int, tc tierCfg, hr *harnessResult, known []knownFinding, verbose bool) {
	rep := hr.Report
	if len(rep.Violations) == 0 && len(rep.Witnesses) == 0 {
		return
	}
	vecDir, err := os.MkdirTemp("", "vcheck-vec-")
	if err != nil {
		hr.Unconfirmed = append(hr.Unconfirmed, err.Error())
		return
	}
	defer os.RemoveAll(vecDir)
	write := func(name string, w sym.Witness) {
		rv := replayVec{Property: id, Harness: h.Func, Pkg: h.Pkg, Entry: h.Func, Inputs: w.Inputs, Params: tc.Params}
		b, _ := json.Marshal(rv)
		os.WriteFile(filepath.Join(vecDir, name+".json"), b, 0o644)
	}
	for i, v := range rep.Violations {
		write(fmt.Sprintf("v%04d", i), v.Witness)
	}
	for i, w := range rep.Witnesses {
		write(fmt.Sprintf("w%04d", i), w)
	}
	out, err := runNative(id, sp, ovFiles, h.Pkg, []string{h.Func}, vecDir, verbose, h.FakeClock)
	if err != nil {
		hr.Unconfirmed = append(hr.Unconfirmed, "native replay failed: "+err.Error()+"\n"+tail(out, 30))
		return
	}
	read := func(name string) *nativeOut {
		b, err := os.ReadFile(filepath.Join(vecDir, name+".json.out"))
		if err != nil {
			return nil
		}
		var o nativeOut
		if json.Unmarshal(b, &o) != nil {
			return nil
		}
		return &o
	}
	for i, v := range rep.Violations {
		o := read(fmt.Sprintf("v%04d", i))
		want := "assert-fail:" + v.AssertID
		ok := false
		native := "no output"
		if o != nil {
			native = o.Outcome
			if v.AssertID == "go-panic" {
				ok = strings.HasPrefix(o.Outcome, "panic:")
			} else {
				ok = o.Outcome == want
			}
		}
		if !ok {
			hr.Unconfirmed = append(hr.Unconfirmed, fmt.Sprintf("counterexample for %s does not reproduce natively (native outcome: %s); inputs %v", v.AssertID, native, v.Witness.Inputs))
			continue
		}
		if o != nil && len(o.Recorded) > 0 {
			v.Recorded = o.Recorded
		}
		p := saveReplay(id, h, tc, v.Witness, fmt.Sprintf("%s-%d-%d", h.Func, hidx, i))
		hr.Confirmed = append(hr.Confirmed, confirmedViolation{V: v, Path: p, Known: matchKnown(known, id, h.Func, v), Native: native})
	}
	for i, w := range rep.Witnesses {
		o := read(fmt.Sprintf("w%04d", i))
		if o == nil {
			hr.TraceMismatches = append(hr.TraceMismatches, fmt.Sprintf("witness %d: no native output", i))
			continue
		}
		if o.Outcome != "ok" || strings.Join(o.Events, ",") != strings.Join(w.Events, ",") {
			hr.TraceMismatches = append(hr.TraceMismatches, fmt.Sprintf("witness %d inputs %v: engine events %v, native outcome %s events %v", i, w.Inputs, w.Events, o.Outcome, o.Events))
			continue
		}
		hr.TracesValidated++
	}
}

func tail(s string, n int) string {
	ls := strings.Split(s, "\n")
	if len(ls) > n {
		ls = ls[len(ls)-n:]
	}
	return strings.Join(ls, "\n")
}

func cmdReplay(path string) int {
	raw, err := os.ReadFile(path)
	if err != nil {
		fmt.Fprintln(os.Stderr, err)
		return 2
	}
	var rv replayVec
	if err := json.Unmarshal(raw, &rv); err != nil {
		fmt.Fprintln(os.Stderr, err)
		return 2
	}
	sp, err := loadSpec(rv.Property)
	if err != nil {
		fmt.Fprintln(os.Stderr, err)
		return 2
	}
	vecDir, _ := os.MkdirTemp("", "vcheck-vec-")
	defer os.RemoveAll(vecDir)
	os.WriteFile(filepath.Join(vecDir, "r.json"), raw, 0o644)
	fake := false
	for _, h := range sp.Harnesses {
		if h.Func == rv.Entry {
			fake = h.FakeClock
		}
	}
	out, err := runNative(rv.Property, sp, overlayFiles(rv.Property, sp), rv.Pkg, []string{rv.Entry}, vecDir, false, fake)
	if err != nil {
		fmt.Println(out)
		fmt.Fprintln(os.Stderr, err)
		return 2
	}
	b, err := os.ReadFile(filepath.Join(vecDir, "r.json.out"))
	if err != nil {
		fmt.Println(out)
		return 2
	}
	fmt.Println(string(b))
	var o nativeOut
	json.Unmarshal(b, &o)
	if o.Outcome != "ok" {
		fmt.Printf("VIOLATION property=%s replay=%s\n", rv.Property, path)
		return 1
	}
	return 0
}

// ---- evidence ----

func writeEvidence(id, tier string, seed int, sp *propSpec, results []*harnessResult, wall, loadT time.Duration, violations int, inconclusive bool) {
	states, transitions, traces, queries := 0, 0, 0, 0
	var solverS float64
	funcs := map[string]bool{}
	stubs := map[string]int{}
	notes := map[string]int{}
	var samples []interface{}
	var harnesses []interface{}
	unwindExceeded := 0
	for _, hr := range results {
		r := hr.Report
		states += r.Stats.Paths
		transitions += r.Stats.Decisions + r.Stats.Forks
		traces += hr.TracesValidated
		queries += r.Queries
		solverS += r.SolverTime.Seconds()
		unwindExceeded += r.Stats.UnwindExceeded
		for _, f := range r.Funcs {
			if strings.Contains(f, modPath) && !strings.Contains(f, "zzverifnd") {
				funcs[f] = true
			}
		}
		for k, v := range r.Stubs {
			stubs[k] += v
		}
		for k, v := range r.Notes {
			notes[k] += v
		}
		for i, w := range r.Witnesses {
			if i >= 3 {
				break
			}
			samples = append(samples, map[string]interface{}{"harness": hr.Spec.Func, "inputs": w.Inputs, "events": w.Events, "path": w.Path})
		}
		tc := hr.Spec.Quick
		if tier == "thorough" {
			tc = hr.Spec.Thorough
		}
		harnesses = append(harnesses, map[string]interface{}{
			"func": hr.Spec.Func, "pkg": hr.Spec.Pkg, "about": hr.Spec.About, "bounds": hr.Spec.Bounds, "params": tc.Params,
			"paths": r.Stats.Paths, "pruned_by_assumption": r.Stats.Pruned, "decisions": r.Stats.Decisions,
			"assertions_checked": r.Stats.Asserts, "assertion_queries": r.Stats.AssertQueries,
			"solver_queries": r.Queries, "solver_s": round2(r.SolverTime.Seconds()), "wall_s": round2(r.Wall.Seconds()),
			"violations": len(r.Violations), "inconclusive": r.Inconclusive, "reached": r.Reached,
			"traces_validated_against_impl": hr.TracesValidated, "unknown_branch_queries": r.UnknownBranch,
		})
	}
	if len(samples) == 0 {
		samples = append(samples, "no path witness collected")
	}
	fl := keys(funcs)
	ev := map[string]interface{}{
		"property_id": id,
		"tier":        tier,
		"seed":        seed,
		"level":       "model_checking",
		"coverage": map[string]interface{}{
			"states":                        max(states, 0),
			"transitions":                   transitions,
			"traces_validated_against_impl": traces,
			"samples":                       samples,
			"exhaustive":                    !inconclusive,
			"explanation":                   "states = feasible execution paths of the real functions explored symbolically (each covers every input satisfying its path condition); transitions = solver-decided branch points (branches and assertions whose condition is concrete on a path - e.g. after an enumerated case split - are evaluated directly and not counted); every assertion with a symbolic condition was discharged by an SMT query (unsat of its negation under the path condition) within the stated bounds; per harness: assertions_checked vs assertion_queries tells the two apart",
			"functions_encoded":             fl,
			"stubs_and_summaries_hit":       stubs,
			"modelling_notes":               notes,
			"harnesses":                     harnesses,
			"solver_queries":                queries,
			"solver_s":                      round2(solverS),
			"solver":                        "z3 4.8.12 (one incremental process per worker)",
			"unwind_exceeded":               unwindExceeded,
			"load_ssa_s":                    round2(loadT.Seconds()),
			"inconclusive":                  inconclusive,
		},
		"assumptions": sp.Assumptions,
		"wall_s":      round2(wall.Seconds()),
		"violations":  violations,
	}
	b, _ := json.MarshalIndent(ev, "", " ")
	os.MkdirAll(filepath.Join(verifDir, "evidence"), 0o755)
	os.WriteFile(filepath.Join(verifDir, "evidence", id+".json"), b, 0o644)
}

func keys(m map[string]bool) []string {
	var r []string
	for k := range m {
		r = append(r, k)
	}
	sort.Strings(r)
	return r
}

func round2(f float64) float64 { return float64(int(f*100+0.5)) / 100 }
