#!/usr/bin/env python3
"""mk_seed_prompt.py <PROPERTY-ID> <seed-name> [avoid text]: prints the prompt for a seeding sub-agent.
The agent gets the property text and a private worktree /tmp/wt-<seed-name>; nothing from /verif."""
import json, sys
pid, name = sys.argv[1], sys.argv[2]
avoid = sys.argv[3] if len(sys.argv) > 3 else ""
p = next(json.loads(l) for l in open('/verif/properties.jsonl') if json.loads(l)['id'] == pid)
mech = "; ".join("%s @ %s" % (m['name'], m['where']) for m in p['anchors'].get('mechanism', []))
wt = "/tmp/wt-" + name
extra = ("Additional constraint for this assignment: do NOT target the most obvious mechanism. Prefer a second-order one: an interaction between two steps of a history (e.g. something that only goes wrong on the second or third operation after a particular first one), a boundary value, state left behind by an earlier operation, or a layer below/above the central function (a helper it relies on, a caller that prepares its input, the place where its result is consumed)." + (" " + avoid if avoid else "") + "\n\n")
print(f"""You are helping evaluate a verification effort by producing ONE realistic regression ("seeded change") in the Go project jcmoraisjr/haproxy-ingress (a Kubernetes ingress controller that generates HAProxy configuration).

Your private scratch checkout of the repository is the git worktree at {wt} (work ONLY there; never touch /repo or /verif, and do not read anything under /verif). Write your results into {wt}-out.

The behavioural property that your change must BREAK:

ID: {pid}
Title: {p['title']}
Statement: {p['statement']}
Quantifier: {p['quantifier']['text']}
Why tests cannot settle it: {p['why_tests_cant']}
Anchored in files: {', '.join(p['anchors']['files'])}
Mechanisms: {mech}

{extra}Task: make a small source change inside {wt} (non-test .go files only, typically 1-15 lines, one or two sites) such that:
  1. the project still compiles: `cd {wt} && GOFLAGS=-mod=mod GOPROXY=off GOSUMDB=off GOTOOLCHAIN=local go build ./...`
  2. the EXISTING test suite still passes for the packages you touched and their direct users: `cd {wt} && GOFLAGS=-mod=mod GOPROXY=off GOSUMDB=off GOTOOLCHAIN=local go test -vet=off -count=1 ./pkg/...` (the packages under pkg/ are enough; tests under ./tests need a cluster and are out of scope; pkg/utils TestRemove is known to be flaky under load, ignore it). If an existing test fails with your change, pick a different change.
  3. the property above is violated, but ONLY under something specific: a particular interleaving, a fault at a particular point, a multi-step sequence of operations, an unusual input value, or two cooperating sites that each look fine alone. Do NOT make a change that ordinary use would expose at once (no "always return nil", no deleting a whole feature). It should look like a plausible refactoring slip or an off-by-one / wrong-variable / wrong-order / dropped-condition kind of mistake a reviewer could miss.
  4. you provide a demonstration: a new Go test file (e.g. zz_seeded_test.go placed in the relevant package directory of {wt}) containing one test that FAILS with your change applied and PASSES on the unmodified tree. Verify both: run it with the change (must fail), then revert ONLY the source change with `git diff -- . ":(exclude)*_test.go" > {wt}.p.diff && git apply -R {wt}.p.diff` (keep the test file), run it again (must pass), then re-apply with `git apply {wt}.p.diff`. NEVER use `git stash` (the stash is shared between worktrees and other people are working in sibling worktrees).

The network is unavailable; all Go modules are already in the module cache. Use the default `go` (1.23). Other jobs are using the machine's CPUs, so builds may be slower than usual. Read the code around the anchored files first to understand how the property is achieved, then choose the mutation.

Deliverables in {wt}-out (create the directory if needed):
  - patch.diff : output of `git -C {wt} diff -- . ':(exclude)*_test.go'` i.e. ONLY the source change (no test file)
  - demo_test.go : a copy of your demonstration test file, and a line at its top as a comment saying in which package directory (relative to the repo root) it must be placed
  - meta.json : {{"property": "{pid}", "summary": "<one or two sentences: what was changed>", "needs": "<what specific input/sequence/fault is needed for the violation to manifest>", "files": ["<changed files>"], "demo_dir": "<package dir of the demo test>", "demo_run": "<exact go test command to run the demo from the repo root>", "verified": "<what you ran and observed: build ok, pkg tests ok, demo fails with change, demo passes without>"}}

Finish by leaving {wt} with your change applied and the demo test file present. Reply with a short summary of the change and the verification you performed.""")
