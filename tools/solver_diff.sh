#!/bin/bash
# usage: solver_diff.sh <ID>...: runs the quick tier of the given checks under z3 4.8.12 (default), z3 5.1.0 and cvc5 1.0.x
# and prints paths / violations / inconclusive per harness, which must agree (the encoding is the same, only the solver differs).
cd /verif
for id in "$@"; do
  for sv in z3 z3-new cvc5; do
    echo "== $id $sv"
    VCHECK_SOLVER=$sv timeout 1800 ./bin/vcheck run $id --no-replay 2>&1 | grep -E "^\[$id\]|^OK|^VIOLATION|^INCONCLUSIVE" | sed -E 's/ queries=[0-9]+ solver=[0-9.]+s wall=[0-9.]+s//; s/\([0-9]+ harnesses, [0-9.]+s\)//'
  done
done
