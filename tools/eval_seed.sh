#!/bin/bash
# usage: eval_seed.sh <OUTDIR> <CHECK-ID> <seed-name>
# Confirms a seeded change in a fresh scratch worktree (demo passes without, fails with the patch,
# build + package tests pass with it), then runs the check against it in /repo and restores /repo.
set -u
OUT=$1; ID=$2; NAME=$3
export GOFLAGS=-mod=mod GOPROXY=off GOSUMDB=off GOTOOLCHAIN=local
[ -f $OUT/patch.diff ] || { echo "no patch"; exit 2; }
EV=/tmp/ev-$NAME
git -C /repo worktree remove --force $EV 2>/dev/null
git -C /repo worktree add -q --detach $EV HEAD || exit 2
DEMO_DIR=$(python3 -c "import json;print(json.load(open('$OUT/meta.json'))['demo_dir'])")
cp $OUT/demo_test.go $EV/$DEMO_DIR/zz_seeded_test.go
TESTNAME=$(grep -o "func Test[A-Za-z0-9_]*" $OUT/demo_test.go | head -1 | sed 's/func //')
echo "== demo WITHOUT change (expect ok)"
(cd $EV && go test -vet=off -count=1 -run "^$TESTNAME\$" ./$DEMO_DIR/ 2>&1 | tail -2)
git -C $EV apply $OUT/patch.diff || { echo "patch does not apply"; exit 2; }
echo "== demo WITH change (expect FAIL)"
(cd $EV && go test -vet=off -count=1 -run "^$TESTNAME\$" ./$DEMO_DIR/ 2>&1 | tail -3)
echo "== build + existing pkg tests with change (demo skipped)"
(cd $EV && go build ./... && go test -vet=off -count=1 -skip "^$TESTNAME\$" ./pkg/... 2>&1 | grep -v "no test files" | grep -v "^ok" | head -5; echo "pkg tests done")
git -C /repo worktree remove --force $EV
echo "== check $ID against the change"
git -C /repo apply $OUT/patch.diff || { echo "patch does not apply to /repo"; exit 2; }
(cd /verif && timeout 1800 ./bin/vcheck run $ID ${TIER:+--tier $TIER} 2>&1 | grep -v "^  [a-zA-Z0-9.\[\]]*#\|^  note: \(full\|incr\|model\|map\) " | cut -c1-220 | head -12)
git -C /repo checkout -- .
git -C /repo status --short | head -3
mkdir -p /verif/seeded/$NAME
cp $OUT/patch.diff /verif/seeded/$NAME/patch.diff
cp $OUT/demo_test.go /verif/seeded/$NAME/demo_test.go.txt
cp $OUT/meta.json /verif/seeded/$NAME/meta.agent.json
