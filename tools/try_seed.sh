#!/bin/bash
# usage: try_seed.sh <seed-name> <CHECK-ID> [vcheck args]: apply a kept seeded change to /repo, run the check, restore /repo
set -u
NAME=$1; ID=$2; shift 2
[ -z "$(git -C /repo status --short)" ] || { echo "/repo not clean"; exit 2; }
git -C /repo apply /verif/seeded/$NAME/patch.diff || exit 2
(cd /verif && timeout 3600 ./bin/vcheck run $ID "$@" 2>&1 | grep -v "^  [a-zA-Z0-9.\[\]]*#\|^  note: \(full\|incr\|model\|map\) " | cut -c1-220 | grep -v "^\[.*violations=0 inconclusive=0" | head -14)
git -C /repo checkout -- .
git -C /repo status --short | head -3
