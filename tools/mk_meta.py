#!/usr/bin/env python3
"""mk_meta.py <seed> <harness> <assertion> <first-run: caught|missed> <history text>: writes seeded/<seed>/meta.json from meta.agent.json"""
import json, sys, os
seed, harness, assertion, first, history = sys.argv[1:6]
d = '/verif/seeded/' + seed
a = json.load(open(d + '/meta.agent.json'))
m = {
 "property": a["property"],
 "breaks": a.get("summary") or a.get("breaks"),
 "needs": a["needs"],
 "changed_files": a.get("files") or a.get("changed_files"),
 "origin": "independent sub-agent given only the property text and a scratch worktree",
 "demonstration": "demo_test.go.txt (copy to %s/zz_seeded_test.go)" % a.get("demo_dir", "?"),
 "confirmed_by_me": "fresh scratch worktree of /repo HEAD (tools/eval_seed.sh): demo test passes without the patch, fails with it; go build ./... and go test ./pkg/... pass with the patch (demo skipped); worktree removed afterwards",
 "check_run": "tools/try_seed.sh %s %s  (git -C /repo apply patch.diff; ./bin/vcheck run %s; git -C /repo checkout -- .)" % (seed, a["property"], a["property"]),
 "caught_by": {"harness": harness, "assertion": assertion, "native_replay": "reproduced"},
 "first_run": first,
 "history": history,
}
json.dump(m, open(d + '/meta.json', 'w'), indent=1)
os.remove(d + '/meta.agent.json')
print("wrote", d + '/meta.json')
