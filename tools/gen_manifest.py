#!/usr/bin/env python3
"""Regenerates /verif/MANIFEST.json from the table below (claimed checks) and properties.jsonl."""
import json, os
V = '/verif'
props = [json.loads(l) for l in open(f'{V}/properties.jsonl')]
run = "./bin/vcheck run %s --tier %s"
TECH = "bounded symbolic execution of the Go SSA (own executor) + SMT (z3 4.8.12) on every branch and assertion; counterexamples and sampled path witnesses replayed against the native build"
# id -> (level text, design ref, level note)
claimed = {
 "C13": ("Bounded symbolic execution of reloadHAProxy.When and ingressReconciler.When (real code, including time.Time arithmetic from the Go standard library source) over K notifications at symbolic instants; every spacing / no-drop assertion is an SMT query over all gap values inside the bound. Exhaustive within the bound, nothing outside it.", "3.1",
   "client-go's rate-limiting queue replaced by its documented contract; clock advances only between notifications and starts at a fixed monotonic origin; intervals are concrete case splits; K<=4 (quick) / 6 (thorough) notifications; gaps 0..4*interval"),
 "C19": ("Bounded symbolic execution of buildBackendCustomConfig/firstToken/LineToSlice (and the Mapper that feeds it) on every snippet up to MAXLEN bytes over a 7-letter alphabet and two-entry keyword lists, against a reference tokenizer written from HAProxy's word-splitting rule. Exhaustive within the bound.", "3.3",
   "HAProxy quoting/escaping of the first word, snippets longer than the bound, and the template line that prints CustomConfig verbatim are outside the claim"),
 "C08": ("Bounded symbolic execution of (*c).IsValidIngress, GetIngress, GetIngressList with a symbolic IngressClass store, compared with the documented decision table on every combination of annotation/class/flags. Exhaustive for the finite decision space (strings only matter up to equality).", "3.4",
   "client.Client is a stub; stops at the list/batch handed to the converter; legacy controller copy and watcher transitions are covered by the C14 harness when present"),
 "C09": ("Bounded symbolic execution of buildResourceName (symbolic strings), of the four secret/service getters with a recording client stub under all 2^4 permission settings, and of buildGlobalDynamic's key-to-bit mapping. Exhaustive within the stated reference shapes.", "3.5",
   "annotation parsers pass reference strings through unchanged (read by hand); GetDHSecretPath and file:// references outside the claim"),
}
na = {}
engines_serves = sorted(claimed)
m = {
 "version": 1,
 "setup_cmd": "cd /verif/engine && GOFLAGS=-mod=mod GOPROXY=off GOSUMDB=off GOTOOLCHAIN=local go build -o /verif/bin/vcheck ./cmd/vcheck",
 "hooks": {"guard": "verif",
           "enable": "no source hooks: harness files and the zzverifnd helper package are injected with go/packages Overlay (symbolic run) and go test -overlay (native replay); /repo is never modified by a check",
           "baseline_off_cmd": "cd /repo && GOFLAGS=-mod=mod go test -json -vet=off -count=1 -timeout 25m ./...",
           "source_commits": [], "add_only": True},
 "engines": [{"name": "gosmt", "path": "/verif/engine", "serves_properties": engines_serves,
              "kind_free_text": "bounded symbolic execution of the real Go code from go/ssa (own executor modelled on x/tools ssa/interp) with an SMT solver deciding every branch and assertion; counterexamples replayed against the native build"}],
 "checks": [], "not_applicable": [],
 "notes": "exit codes of every command: 0 = all obligations discharged within the stated bounds, 1 = violation replayed natively (VIOLATION line), 2 = inconclusive (engine limitation, solver unknown, vacuity) - never mapped to 0",
}
extra = json.load(open(f'{V}/tools/manifest_extra.json')) if os.path.exists(f'{V}/tools/manifest_extra.json') else {}
claimed.update({k: tuple(v) for k, v in extra.get('claimed', {}).items()})
na.update(extra.get('not_applicable', {}))
m['engines'][0]['serves_properties'] = sorted(claimed)
for p in props:
    i = p['id']
    if i in claimed:
        t, ref, note = claimed[i]
        m['checks'].append({"property_id": i, "quick_cmd": run % (i, "quick"), "thorough_cmd": run % (i, "thorough"),
          "evidence_file": f"/verif/evidence/{i}.json", "replay_cmd_template": "./bin/vcheck replay {path}", "engine": "gosmt",
          "level_claimed": {"category": "model_checking", "text": t, "design_ref": "DESIGN.md §3 (paragraph %s), §6 (seeded changes caught)" % i}, "level_note": note, "technique": TECH})
    else:
        m['not_applicable'].append({"property_id": i, "reason": na.get(i, "check not built yet in this session (engine exists; harness pending) - will be claimed or given a final reason")})
json.dump(m, open(f'{V}/MANIFEST.json', 'w'), indent=1)
print("claimed:", sorted(claimed))
