#!/bin/bash
# Re-runs every kept seeded change against the harness recorded as catching it; prints CAUGHT / MISSED per seed.
# usage: all_seeds.sh [seed-name ...]
cd /verif
names="$@"; [ -z "$names" ] && names=$(ls seeded)
for n in $names; do
  if grep -q '"status": "obsolete"' seeded/$n/meta.json; then echo "SKIP   $n (obsolete: $(python3 -c "import json;print(json.load(open('/verif/seeded/$n/meta.json'))['obsolete_reason'][:80])"))"; continue; fi
  read -r check func <<<"$(python3 - "$n" <<'PY'
import json,re,sys
m=json.load(open('/verif/seeded/%s/meta.json'%sys.argv[1]))
h=m['caught_by']['harness']
func=h.split()[0].strip(',;:')
c=re.search(r'\(checks? (C\d\d)',h)
check=c.group(1) if c else m['property']
print(check,func)
PY
)"
  out=$(tools/try_seed.sh $n $check --only $func 2>&1)
  if echo "$out" | grep -q "^VIOLATION property=$check"; then echo "CAUGHT $n by $check/$func ($(echo "$out" | grep -m1 -o 'assertion=[^ ]*'))"; else echo "MISSED $n by $check/$func :: $(echo "$out" | tail -1 | cut -c1-120)"; fi
done
